#!/bin/bash
# MANIFEST.setup_cmd: offline; installs the contract libraries from the local
# wheelhouse into the git-ignored .deps and runs the oracle self-tests.
cd "$(dirname "${BASH_SOURCE[0]}")" || exit 1
export PIP_NO_INDEX=1 PYTHONDONTWRITEBYTECODE=1
PY=/venv/bin/python
if [ ! -d .deps/icontract ]; then
  rm -rf .deps.tmp.setup
  "$PY" -m pip install -q --no-index --find-links /opt/veriftools/wheels \
      --target .deps.tmp.setup deal icontract jsonschema >/dev/null 2>&1 \
    && rm -rf .deps && mv .deps.tmp.setup .deps
  rm -rf .deps.tmp.setup
fi
[ -d .deps/icontract ] && echo "deps: icontract/deal/jsonschema installed in .deps" \
  || echo "deps: wheelhouse install failed - built-in contract backend will be used"
mkdir -p evidence replays
CMV_HOME="$PWD" "$PY" -c "
from cmv.oracles import selftest
import sys
err = selftest.run()
print('oracle self-tests:', err or 'ok')
sys.exit(1 if err else 0)"
