"""Spellings of an 8-bit colour in every input format the library documents.

Every opaque spelling produced here denotes *exactly* the given colour under
the CSS reference reader (verified at generation time for hsl / percentage
forms), so the intended colour is known without parsing.
"""
from fractions import Fraction

from cmv.oracles import csscolor

OPAQUE_KINDS = ["hex6", "HEX6", "hex6n", "hex3", "hex3n", "rgb", "rgb_tight", "RGB", "rgbpct",
                "hsl", "HSL", "keyword", "tuple", "list", "ntuple", "tuplesub", "listsub"]

import collections

RGBTuple = collections.namedtuple("RGBTuple", "red green blue")     # e.g. webcolors.IntegerRGB


class TupleSub(tuple):
    pass


class ListSub(list):
    pass
TRANSLUCENT_KINDS = ["rgba", "hsla", "rgba_tuple", "rgba_list"]

# what make_readable must give back for each input kind
OUT_KIND = {"hex6": "hex", "HEX6": "hex", "hex6n": "hex", "hex3": "hex", "hex3n": "hex",
            "rgb": "rgb", "rgb_tight": "rgb", "RGB": "rgb", "rgbpct": "rgb",
            "hsl": "hsl", "HSL": "hsl", "keyword": "hex", "tuple": "tuple", "list": "tuple",
            "ntuple": "tuple", "tuplesub": "tuple", "listsub": "tuple",
            "rgba": "hex", "hsla": "hex", "rgba_tuple": "hex", "rgba_list": "hex"}

_KW_BY_RGB = None


def keyword_for(rgb):
    global _KW_BY_RGB
    if _KW_BY_RGB is None:
        _KW_BY_RGB = {}
        for k, v in sorted(csscolor.keywords().items()):
            _KW_BY_RGB.setdefault(v, k)
    return _KW_BY_RGB.get(tuple(rgb))


def hsl_exact(rgb):
    """(h degrees, s, l) as Fractions, standard RGB->HSL."""
    r, g, b = (Fraction(v, 255) for v in rgb)
    mx, mn = max(r, g, b), min(r, g, b)
    d = mx - mn
    l = (mx + mn) / 2
    if d == 0:
        return Fraction(0), Fraction(0), l
    s = d / (1 - abs(2 * l - 1))
    if mx == r:
        h = ((g - b) / d) % 6
    elif mx == g:
        h = (b - r) / d + 2
    else:
        h = (r - g) / d + 4
    return h * 60, s, l


def _dec(fr, digits):
    q = round(fr * 10 ** digits)
    s = "%d" % abs(q)
    s = s.rjust(digits + 1, "0")
    out = (s[:-digits] + "." + s[-digits:]) if digits else s
    if "." in out:
        out = out.rstrip("0").rstrip(".")
    return ("-" if q < 0 else "") + (out or "0")


def hsl_spelling(rgb, upper=False, alpha=None):
    h, s, l = hsl_exact(rgb)
    for digits in (2, 4, 6, 9, 12):
        hs, ss, ls = _dec(h, digits), _dec(min(s, 1) * 100, digits), _dec(l * 100, digits)
        body = f"{hs}, {ss}%, {ls}%"
        if csscolor.accept_sets(csscolor.parse(f"hsl({body})").rgb) == [{rgb[0]}, {rgb[1]}, {rgb[2]}]:
            break
    else:
        return None
    if alpha is not None:
        return f"hsla({body}, {alpha})"
    return ("HSL(" if upper else "hsl(") + body + ")"


def pct_spelling(rgb):
    for digits in (1, 2, 4, 6):
        toks = [_dec(Fraction(v * 100, 255), digits) for v in rgb]
        s = "rgb(%s%%, %s%%, %s%%)" % tuple(toks)
        if csscolor.accept_sets(csscolor.parse(s).rgb) == [{rgb[0]}, {rgb[1]}, {rgb[2]}]:
            return s
    return None


def spell(rgb, kind):
    """Return the spelled input, or None if the colour has no such spelling."""
    r, g, b = rgb
    if kind == "hex6":
        return "#%02x%02x%02x" % rgb
    if kind == "HEX6":
        return "#%02X%02X%02X" % rgb
    if kind == "hex6n":
        return "%02x%02x%02x" % rgb
    if kind in ("hex3", "hex3n"):
        if all(v % 17 == 0 for v in rgb):
            s = "%x%x%x" % tuple(v // 17 for v in rgb)
            return ("#" + s) if kind == "hex3" else s
        return None
    if kind == "rgb":
        return f"rgb({r}, {g}, {b})"
    if kind == "rgb_tight":
        return f"rgb({r},{g},{b})"
    if kind == "RGB":
        return f"RGB( {r} , {g} , {b} )"
    if kind == "rgbpct":
        return pct_spelling(rgb)
    if kind == "hsl":
        return hsl_spelling(rgb)
    if kind == "HSL":
        return hsl_spelling(rgb, upper=True)
    if kind == "keyword":
        return keyword_for(rgb)
    if kind == "tuple":
        return (r, g, b)
    if kind == "list":
        return [r, g, b]
    if kind == "ntuple":
        return RGBTuple(r, g, b)
    if kind == "tuplesub":
        return TupleSub((r, g, b))
    if kind == "listsub":
        return ListSub([r, g, b])
    raise KeyError(kind)


def spell_translucent(fg, alpha_text, kind):
    """alpha_text: decimal string in [0,1]."""
    r, g, b = fg
    if kind == "rgba":
        return f"rgba({r}, {g}, {b}, {alpha_text})"
    if kind == "hsla":
        return hsl_spelling(fg, alpha=alpha_text)
    if kind == "rgba_tuple":
        return (r, g, b, float(alpha_text))
    if kind == "rgba_list":
        return [r, g, b, float(alpha_text)]
    raise KeyError(kind)


def available(rgb, kinds=OPAQUE_KINDS):
    out = []
    for k in kinds:
        s = spell(rgb, k)
        if s is not None:
            out.append((k, s))
    return out


def jsonable(x):
    return list(x) if isinstance(x, (tuple, list)) else x


def from_json(x, kind):
    if kind in ("tuple", "rgba_tuple") and isinstance(x, list):
        return tuple(x)
    if kind == "ntuple":
        return RGBTuple(*x)
    if kind == "tuplesub":
        return TupleSub(x)
    if kind == "listsub":
        return ListSub(x)
    return x
