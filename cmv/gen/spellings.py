"""Spellings of an 8-bit colour in every input format the library documents.

Every opaque spelling produced here denotes *exactly* the given colour under
the CSS reference reader (verified at generation time for hsl / percentage
forms), so the intended colour is known without parsing.
"""
from fractions import Fraction

from cmv.oracles import csscolor

OPAQUE_KINDS = ["hex6", "HEX6", "hex6n", "hex3", "hex3n", "rgb", "rgb_tight", "RGB", "rgbpct",
                "hsl", "HSL", "keyword", "tuple", "list", "ntuple", "tuplesub", "listsub",
                # further tuple forms the library's reader accepts (color_parser: 3-component branch): fractions of full
                # scale as floats, 0-255 floats, numeric strings, percentage strings, (hue, s, l) with float s and l; and
                # the informal comma list
                "frac_tuple", "float_tuple", "str_tuple", "pct_tuple", "hsl_tuple", "informal3",
                # surrounding blanks ("optional whitespace"): trailing as well as leading
                "keyword_pad", "hex6n_pad", "hex6_pad", "rgb_pad", "hsl_pad"]

import collections

RGBTuple = collections.namedtuple("RGBTuple", "red green blue")     # e.g. webcolors.IntegerRGB


class TupleSub(tuple):
    pass


class ListSub(list):
    pass
TRANSLUCENT_KINDS = ["rgba", "hsla", "rgba_tuple", "rgba_list"]
# alpha carried by spellings whose *detected* format is not rgba/hsla: rgb() with a fourth component (legacy comma form,
# CSS Color 4 slash form, percentage alpha) and the informal list
TRANSLUCENT_KINDS_X = ["rgb4", "rgbslash", "rgbslashpct", "informal4", "rgbapct", "rgba_tuple_pct"]

# what make_readable must give back for each input kind
OUT_KIND = {"hex6": "hex", "HEX6": "hex", "hex6n": "hex", "hex3": "hex", "hex3n": "hex",
            "rgb": "rgb", "rgb_tight": "rgb", "RGB": "rgb", "rgbpct": "rgb",
            "hsl": "hsl", "HSL": "hsl", "keyword": "hex", "tuple": "tuple", "list": "tuple",
            "ntuple": "tuple", "tuplesub": "tuple", "listsub": "tuple",
            "rgba": "hex", "hsla": "hex", "rgba_tuple": "hex", "rgba_list": "hex",
            "keyword_pad": "hex", "hex6n_pad": "hex", "hex6_pad": "hex", "rgb_pad": "rgb", "hsl_pad": "hsl",
            "frac_tuple": "tuple", "float_tuple": "tuple", "str_tuple": "tuple", "pct_tuple": "tuple", "hsl_tuple": "tuple",
            # not covered by the documented format mapping (C06 does not judge these)
            "informal3": None, "rgb4": None, "rgbslash": None, "rgbslashpct": None, "informal4": None,
            "rgbapct": "hex", "rgba_tuple_pct": "hex"}

_KW_BY_RGB = None


def keyword_for(rgb):
    global _KW_BY_RGB
    if _KW_BY_RGB is None:
        _KW_BY_RGB = {}
        for k, v in sorted(csscolor.keywords().items()):
            _KW_BY_RGB.setdefault(v, k)
    return _KW_BY_RGB.get(tuple(rgb))


def hsl_exact(rgb):
    """(h degrees, s, l) as Fractions, standard RGB->HSL."""
    r, g, b = (Fraction(v, 255) for v in rgb)
    mx, mn = max(r, g, b), min(r, g, b)
    d = mx - mn
    l = (mx + mn) / 2
    if d == 0:
        return Fraction(0), Fraction(0), l
    s = d / (1 - abs(2 * l - 1))
    if mx == r:
        h = ((g - b) / d) % 6
    elif mx == g:
        h = (b - r) / d + 2
    else:
        h = (r - g) / d + 4
    return h * 60, s, l


def _dec(fr, digits):
    q = round(fr * 10 ** digits)
    s = "%d" % abs(q)
    s = s.rjust(digits + 1, "0")
    out = (s[:-digits] + "." + s[-digits:]) if digits else s
    if "." in out:
        out = out.rstrip("0").rstrip(".")
    return ("-" if q < 0 else "") + (out or "0")


def hsl_spelling(rgb, upper=False, alpha=None):
    h, s, l = hsl_exact(rgb)
    for digits in (2, 4, 6, 9, 12):
        hs, ss, ls = _dec(h, digits), _dec(min(s, 1) * 100, digits), _dec(l * 100, digits)
        body = f"{hs}, {ss}%, {ls}%"
        if csscolor.accept_sets(csscolor.parse(f"hsl({body})").rgb) == [{rgb[0]}, {rgb[1]}, {rgb[2]}]:
            break
    else:
        return None
    if alpha is not None:
        return f"hsla({body}, {alpha})"
    return ("HSL(" if upper else "hsl(") + body + ")"


def pct_spelling(rgb):
    for digits in (1, 2, 4, 6):
        toks = [_dec(Fraction(v * 100, 255), digits) for v in rgb]
        s = "rgb(%s%%, %s%%, %s%%)" % tuple(toks)
        if csscolor.accept_sets(csscolor.parse(s).rgb) == [{rgb[0]}, {rgb[1]}, {rgb[2]}]:
            return s
    return None


def spell(rgb, kind):
    """Return the spelled input, or None if the colour has no such spelling."""
    r, g, b = rgb
    if kind == "hex6":
        return "#%02x%02x%02x" % rgb
    if kind == "HEX6":
        return "#%02X%02X%02X" % rgb
    if kind == "hex6n":
        return "%02x%02x%02x" % rgb
    if kind in ("hex3", "hex3n"):
        if all(v % 17 == 0 for v in rgb):
            s = "%x%x%x" % tuple(v // 17 for v in rgb)
            return ("#" + s) if kind == "hex3" else s
        return None
    if kind == "rgb":
        return f"rgb({r}, {g}, {b})"
    if kind == "rgb_tight":
        return f"rgb({r},{g},{b})"
    if kind == "RGB":
        return f"RGB( {r} , {g} , {b} )"
    if kind == "rgbpct":
        return pct_spelling(rgb)
    if kind == "hsl":
        return hsl_spelling(rgb)
    if kind == "HSL":
        return hsl_spelling(rgb, upper=True)
    if kind == "keyword":
        return keyword_for(rgb)
    if kind == "tuple":
        return (r, g, b)
    if kind == "list":
        return [r, g, b]
    if kind == "ntuple":
        return RGBTuple(r, g, b)
    if kind == "tuplesub":
        return TupleSub((r, g, b))
    if kind == "listsub":
        return ListSub([r, g, b])
    if kind.endswith("_pad"):
        inner = spell(rgb, {"keyword_pad": "keyword", "hex6n_pad": "hex6n", "hex6_pad": "hex6", "rgb_pad": "rgb", "hsl_pad": "hsl"}[kind])
        if inner is None:
            return None
        if kind == "keyword_pad" and (r + g) % 2:
            inner = inner.upper()
        return ["", " ", "  "][(r + b) % 3] + inner + [" ", "  ", " "][(g + b) % 3]
    if kind == "frac_tuple":
        return tuple(v / 255 for v in rgb)
    if kind == "float_tuple":
        # floats <= 1.0 are fractions of full scale and (h, 0.0/1.0, 0.0/1.0) reads as HSL: only channels >= 2
        return tuple(float(v) for v in rgb) if min(rgb) >= 2 else None
    if kind == "str_tuple":
        return tuple(str(v) for v in rgb)
    if kind == "pct_tuple":
        p = pct_spelling(rgb)
        return tuple(x.strip() for x in p[4:-1].split(",")) if p else None
    if kind == "hsl_tuple":
        return hsl_tuple(rgb)
    if kind == "informal3":
        return f"{r}, {g}, {b}"
    raise KeyError(kind)


def hsl_tuple(rgb):
    """(hue, s, l) with float s and l in [0,1] and 1 < hue <= 360 - the tuple the library reads as HSL - denoting exactly rgb
    under the CSS reference reader."""
    h, s, l = hsl_exact(rgb)
    for digits in (4, 6, 9):
        hs, ss, ls = _dec(h, digits), _dec(min(s, 1), digits + 2), _dec(l, digits + 2)
        if not (1 < Fraction(hs) <= 360):
            return None
        css = f"hsl({hs}, {_dec(Fraction(ss) * 100, digits)}%, {_dec(Fraction(ls) * 100, digits)}%)"
        if csscolor.accept_sets(csscolor.parse(css).rgb) == [{rgb[0]}, {rgb[1]}, {rgb[2]}]:
            return (float(hs), float(ss), float(ls))
    return None


def spell_translucent(fg, alpha_text, kind):
    """alpha_text: decimal string in [0,1]."""
    r, g, b = fg
    if kind == "rgba":
        return f"rgba({r}, {g}, {b}, {alpha_text})"
    if kind == "hsla":
        return hsl_spelling(fg, alpha=alpha_text)
    if kind == "rgba_tuple":
        return (r, g, b, float(alpha_text))
    if kind == "rgba_list":
        return [r, g, b, float(alpha_text)]
    if kind == "rgb4":
        return f"rgb({r}, {g}, {b}, {alpha_text})"
    if kind == "rgbslash":
        return f"rgb({r} {g} {b} / {alpha_text})"
    if kind == "rgbslashpct":
        return f"rgb({r} {g} {b} / {_dec(Fraction(alpha_text) * 100, 6)}%)"
    if kind == "informal4":
        return f"{r}, {g}, {b}, {alpha_text}"
    if kind == "rgbapct":
        return f"rgba({r}, {g}, {b}, {_dec(Fraction(alpha_text) * 100, 6)}%)"
    if kind == "rgba_tuple_pct":
        return (r, g, b, f"{_dec(Fraction(alpha_text) * 100, 6)}%")
    raise KeyError(kind)


def available(rgb, kinds=OPAQUE_KINDS):
    out = []
    for k in kinds:
        s = spell(rgb, k)
        if s is not None:
            out.append((k, s))
    return out


def jsonable(x):
    return list(x) if isinstance(x, (tuple, list)) else x


def from_json(x, kind):
    if kind in ("tuple", "rgba_tuple", "rgba_tuple_pct", "frac_tuple", "float_tuple", "str_tuple", "pct_tuple", "hsl_tuple") and isinstance(x, list):
        return tuple(x)
    if kind == "ntuple":
        return RGBTuple(*x)
    if kind == "tuplesub":
        return TupleSub(x)
    if kind == "listsub":
        return ListSub(x)
    return x
