"""Colour and pair generators (pure functions of the seed)."""
import hashlib
import random

from cmv.oracles import wcag, csscolor

BLACK = (0, 0, 0)
WHITE = (255, 255, 255)
THRESHOLDS = (3.0, 4.5, 7.0)


def rng(*salt):
    h = hashlib.blake2b(repr(salt).encode(), digest_size=8).digest()
    return random.Random(int.from_bytes(h, "big"))


def uniform(rnd):
    return (rnd.randrange(256), rnd.randrange(256), rnd.randrange(256))


def grey(rnd):
    v = rnd.randrange(256)
    return (v, v, v)


def named(rnd):
    kw = sorted(csscolor.keywords().items())
    return kw[rnd.randrange(len(kw))]


def lerp(a, b, t):
    return tuple(int(round(x + (y - x) * t)) for x, y in zip(a, b))


def far_end(bg):
    return WHITE if wcag.ratio(WHITE, bg) >= wcag.ratio(BLACK, bg) else BLACK


def steer(text, bg, target, toward=None):
    """Move `text` along a straight line in sRGB (towards the far end of the
    background's contrast range, or towards the background) until its oracle
    ratio against bg is as close to `target` as 8-bit steps allow.  Returns
    the colour or None if the target is unreachable."""
    r0 = wcag.ratio(text, bg)
    if r0 < target:
        end = toward or far_end(bg)
        if wcag.ratio(end, bg) < target:
            return None
        lo, hi = 0.0, 1.0  # ratio increasing in t (approximately)
        for _ in range(24):
            mid = (lo + hi) / 2
            if wcag.ratio(lerp(text, end, mid), bg) < target:
                lo = mid
            else:
                hi = mid
        return lerp(text, end, hi)
    else:
        end = bg
        lo, hi = 0.0, 1.0
        for _ in range(24):
            mid = (lo + hi) / 2
            if wcag.ratio(lerp(text, end, mid), bg) >= target:
                lo = mid
            else:
                hi = mid
        return lerp(text, end, lo)


def near_threshold(rnd, thr=None, band=0.03, bg=None):
    """Chromatic pair whose ratio lies within +-band of a threshold."""
    for _ in range(50):
        b = bg or uniform(rnd)
        t = uniform(rnd)
        th = thr or rnd.choice(THRESHOLDS)
        target = th * (1 + rnd.uniform(-band, band))
        c = steer(t, b, target)
        if c is not None and abs(wcag.ratio(c, b) / th - 1) <= band * 1.5:
            return c, b, th
    return None


def hair(rnd, thr=None):
    """Two texts differing by one 8-bit step in one channel that straddle a
    threshold against the same background: (below, above, bg, thr)."""
    for _ in range(200):
        got = near_threshold(rnd, thr, band=0.01)
        if not got:
            continue
        c, b, th = got
        cur = c
        for _ in range(40):
            r = wcag.ratio(cur, b)
            # which direction raises contrast? try each channel step
            best = None
            for ch in range(3):
                for d in (-1, 1):
                    v = cur[ch] + d
                    if not 0 <= v <= 255:
                        continue
                    n = cur[:ch] + (v,) + cur[ch + 1:]
                    rn = wcag.ratio(n, b)
                    if (r < th <= rn) or (rn < th <= r):
                        lo_c, hi_c = (cur, n) if r < th else (n, cur)
                        return lo_c, hi_c, b, th
                    if best is None or abs(rn - th) < best[0]:
                        best = (abs(rn - th), n)
            if best is None:
                break
            cur = best[1]
    return None


def below(rnd, large, vr, lo=0.3, hi=0.999, bg=None):
    """Pair whose ratio is in [lo*min, hi*min)."""
    mn = wcag.minimum(large, vr)
    for _ in range(100):
        b = bg or uniform(rnd)
        t = uniform(rnd)
        target = mn * rnd.uniform(lo, hi)
        c = steer(t, b, max(1.0, target))
        if c is None:
            continue
        r = wcag.ratio(c, b)
        if r < mn:
            return c, b
    return None


def saturating(rnd, mn=None):
    """Pairs whose fix has to go (almost) to the end of the range: the background leaves barely enough room - black or white
    reaches only [1.0, 1.08] x the minimum - and the text sits just below the minimum near that end (clipping territory)."""
    for _ in range(400):
        m = mn or rnd.choice(THRESHOLDS)
        if rnd.random() < 0.5:
            v = rnd.randrange(256)
            b = (v, v, v) if rnd.random() < 0.6 else tuple(min(255, max(0, v + rnd.randrange(-12, 13))) for _ in range(3))
        else:
            b = uniform(rnd)
        end = far_end(b)
        top = wcag.ratio(end, b)
        if not (m <= top <= m * 1.08):
            continue
        if rnd.random() < 0.6:   # near-grey text close to the end
            k = rnd.randrange(3, 16)
            t = tuple(k if end == BLACK else 255 - k for _ in range(3))
        else:
            t = steer(lerp(end, uniform(rnd), 0.08), b, m * rnd.uniform(0.93, 0.999), toward=end)
        if t and wcag.ratio(t, b) < m:
            return t, b
    return None


def gamut_surface(rnd, mn=None):
    """Text on the surface of the sRGB gamut (one channel at 0, another near 255: neon greens, yellows, cyans, magentas ...) whose
    contrast against a mid / medium-dark background is just below a minimum: clipping makes lightness and chroma searches behave
    differently here. The *background* is steered so that the vivid text stays exactly what it is."""
    for _ in range(200):
        hi = rnd.randrange(225, 256)
        mid = rnd.randrange(0, 256)
        t = [0, hi, mid]
        rnd.shuffle(t)
        t = tuple(t)
        m = mn or rnd.choice(THRESHOLDS)
        b0 = tuple(rnd.randrange(20, 200) for _ in range(3))
        b = steer(b0, t, m * rnd.uniform(0.85, 0.998))
        if b is None:
            continue
        r = wcag.ratio(t, b)
        if 0.8 * m <= r < m:
            return t, b
    return None


def midtone_bg(rnd):
    """Background whose luminance leaves room on both sides."""
    while True:
        b = uniform(rnd)
        L = wcag.luminance(b)
        if 0.12 <= L <= 0.35:
            return b


def side(text, bg):
    return "lighter" if wcag.luminance(text) >= wcag.luminance(bg) else "darker"


def pair_classes(rnd, n, large=None, vr=None):
    """Yield (class, text, bg) triples, n of them, stratified."""
    classes = ["uniform", "near", "near", "hair", "grey", "named", "equal", "bw_bg",
               "mid_light", "mid_dark", "below", "below", "websafe", "saturating", "vivid_unfavoured", "gamut_surface"]
    out = []
    i = 0
    while len(out) < n:
        c = classes[i % len(classes)]
        i += 1
        if c == "uniform":
            out.append((c, uniform(rnd), uniform(rnd)))
        elif c == "near":
            g = near_threshold(rnd)
            if g:
                out.append((c, g[0], g[1]))
        elif c == "hair":
            g = hair(rnd)
            if g:
                out.append((c + "-", g[0], g[2]))
                out.append((c + "+", g[1], g[2]))
        elif c == "grey":
            out.append((c, grey(rnd), grey(rnd)))
        elif c == "named":
            out.append((c, named(rnd)[1], named(rnd)[1]))
        elif c == "vivid_unfavoured":
            # vivid text (a channel at 0 or 255) that is lighter than a mid-tone background - or darker than a darkish one:
            # the step-by-step search stalls there while one-shot searches may still succeed
            lv = [0, 51, 102, 153, 204, 255]
            for _ in range(30):
                t = tuple(rnd.choice(lv) for _ in range(3))
                if (0 in t or 255 in t) and len(set(t)) > 1:
                    break
            v = rnd.choice([85, 97, 102, 110, 119, 128, 60, 72])
            b = (v, v, v) if rnd.random() < 0.5 else tuple(min(255, max(0, v + rnd.randrange(-20, 21))) for _ in range(3))
            out.append((c, t, b))
        elif c == "gamut_surface":
            g = gamut_surface(rnd)
            if g:
                out.append((c, g[0], g[1]))
        elif c == "saturating":
            g = saturating(rnd)
            if g:
                out.append((c, g[0], g[1]))
        elif c == "websafe":
            # colours people actually type: web-safe lattice, primaries/secondaries, 0/128/255 mixes, near-white and near-black
            lat = [0, 51, 102, 153, 204, 255] if rnd.random() < 0.6 else [0, 128, 255, 1, 254, 127]
            t = tuple(rnd.choice(lat) for _ in range(3))
            b = tuple(rnd.choice(lat) for _ in range(3)) if rnd.random() < 0.7 else rnd.choice([BLACK, WHITE, (255, 255, 254), (1, 1, 1), (250, 250, 250)])
            out.append((c, t, b))
        elif c == "equal":
            t = uniform(rnd)
            b = t if rnd.random() < 0.5 else tuple(min(255, max(0, v + rnd.randrange(-6, 7))) for v in t)
            out.append((c, t, b))
        elif c == "bw_bg":
            out.append((c, uniform(rnd), rnd.choice([BLACK, WHITE, (128, 128, 128), (119, 119, 119)])))
        elif c in ("mid_light", "mid_dark"):
            b = midtone_bg(rnd)
            end = WHITE if c == "mid_light" else BLACK
            mn = rnd.choice(THRESHOLDS)
            t = steer(lerp(b, uniform(rnd), 0.3), b, mn * rnd.uniform(0.5, 1.02), toward=end)
            if t:
                out.append((c, t, b))
        elif c == "below":
            lg = rnd.random() < 0.5 if large is None else large
            v = rnd.random() < 0.5 if vr is None else vr
            g = below(rnd, lg, v)
            if g:
                out.append((c, g[0], g[1]))
    return out[:n]
