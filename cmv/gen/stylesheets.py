"""Generated stylesheets for the CLI properties (C08, C09, C18).

make_sheet(rnd, premium, default_bg_rgb, rich) -> Sheet
  .text      CSS source
  .features  selector -> set of feature labels (used only to *classify*
             known findings; the oracle reads the CSS text itself)
"""
from cmv.gen import colors as G, spellings as SP
from cmv.oracles import wcag, oklab

TEXT_SPELLINGS = ["hex6", "hex6", "HEX6", "hex3", "rgb", "rgb_tight", "RGB", "rgbpct", "hsl", "keyword"]
INVALID_VALUES = ["inherit", "currentcolor", "currentColor", "transparent", "initial", "notacolor", "#12", "rgb(1,2)", "color-mix(in srgb, red, blue)", "unset"]
FILLER = ["font-size: 14px", "margin: 0 auto", "font-family: \"Helvetica Neue\", Arial, sans-serif", "border: 1px solid #ccc", "line-height: 1.5",
          "padding: 0.5em 1em", "text-decoration: underline", "display: inline-block", "transition: color .2s ease-in-out", "content: \"x\""]
MEDIA = ["@media screen", "@media (min-width: 600px)", "@media print", "@supports (display: grid)", "@media screen and (max-width:40em)", "@supports not (color: red)"]
RICH_TOP = [
    "@import url(\"theme.css\") screen;", "@import 'a;b{c}.css';", "@namespace svg url(http://www.w3.org/2000/svg);",
    "@font-face { font-family: \"My;Font{}\"; src: url(fonts/a.woff2) format(\"woff2\"), url('b}.woff') }",
    "@keyframes spin { from { transform: rotate(0deg) } 50.5% { opacity: .5 } to { transform: rotate(360deg); } }",
    "@page :first { margin: 1in; }", "@layer base, components;", "@layer base { .in-layer { color: #777; background-color: #fff } }",
    "@unknown-rule foo bar;", "@unknown-block x { y: z; { nested } }", "/* comment with { braces } ; and 'quotes' */", "/**/",
    ".empty { }", ".semis { ;; margin: 0;; ; }", ".str { content: \"} ; /* not a comment */ {\"; quotes: '\\201C' '\\201D' }",
    ".url { background: url(img/a;b.png) no-repeat; cursor: url( \"c}{.cur\" ), auto }", ".esc\\:colon .\\31 23 { margin: 1px }",
    ".imp { margin: 0 ! important; padding: 0!IMPORTANT }", ".hack { filter: progid:DXImageTransform.Microsoft.gradient(startColorstr='#80000000', endColorstr='#80000000'); width: 100px\\9 }",
    ".üñí-çødé::after { content: \"日本語 ✓\" } /* ünï */", "a[href^=\"http://\"]:not(.x)::before, b > i ~ u + s { outline: 0 }",
    ".calc { width: calc(100% - (2 * var(--gap, 4px))); grid-template-areas: \"a b\" \"c d\" }", ".big { margin: 1e3px -0.5E-2em +.5px 010px }",
    "@media screen { @media (min-width: 1px) { /* deep */ .deep-plain { margin: 0 } } }", ".u { unicode-range: U+0025-00FF, u+4?? }",
    # code points that str.splitlines() / some editors treat as line breaks but CSS does not (they are ordinary content)
    "/* licence\u2028second line\u2029third\u0085fourth \u001c\u001d\u001e\u000b end */",
    ".sep::before { content: \"a\u2028b\u0085c\u2029d\u001ce\"; quotes: '\u0085' '\u2028' }", ".sep\u0085x, .p\u2028q { margin: 0 }",
]
VENDOR_HACKS = ["*zoom: 1", "_height: 1px", "*display: inline"]


class Sheet:
    def __init__(self):
        self.text = ""
        self.features = {}
        self.n_rules = 0


def _spell(rnd, rgb, kinds=TEXT_SPELLINGS):
    for _ in range(10):
        k = rnd.choice(kinds)
        s = SP.spell(tuple(rgb), k)
        if s is not None and isinstance(s, str):
            return s
    return "#%02x%02x%02x" % tuple(rgb)


def _text_for(rnd, bg, target, cls):
    """Draw a text colour of the requested class against bg."""
    light_bg = oklab.lab_direct(bg)[0] >= 0.5
    good_end = G.BLACK if light_bg else G.WHITE     # side the library's search favours
    for _ in range(40):
        if cls == "readable":
            t = G.steer(G.lerp(bg, G.uniform(rnd), 0.4), bg, target * rnd.uniform(1.05, 1.6), toward=G.far_end(bg))
            if t and wcag.ratio(t, bg) >= target * 1.02:
                return t
        elif cls == "fixable":
            if wcag.ratio(good_end, bg) < target * 1.1:
                return None
            t = G.steer(G.lerp(bg, G.uniform(rnd), 0.25), bg, target * rnd.uniform(0.72, 0.985), toward=good_end)
            if t and wcag.ratio(t, bg) < target * 0.995 and G.side(t, bg) == ("darker" if light_bg else "lighter"):
                return t
        else:  # hard
            t = tuple(min(255, max(0, v + rnd.randrange(-12, 13))) for v in bg)
            if wcag.ratio(t, bg) < 1.6:
                return t
    return None


def _bg(rnd):
    r = rnd.random()
    if r < 0.45:
        v = rnd.randrange(225, 256)
        return tuple(min(255, max(200, v + rnd.randrange(-10, 11))) for _ in range(3))
    if r < 0.75:
        return tuple(rnd.randrange(0, 50) for _ in range(3))
    return G.uniform(rnd)


def _selector(rnd, i, tag="r"):
    base = f".{tag}{i}"
    k = rnd.randrange(10)
    if k == 0:
        return f"#id{i} > a{base}"
    if k == 1:
        return f"{base}:hover"
    if k == 2:
        return f"ul li{base}::before"
    if k == 3:
        return f"a[title=\"t{i}\"]{base}"
    if k == 4:
        return f"{base}, .alt{i}"
    if k == 5:
        # long selector lists (well over 60 characters), two of which may share a long common beginning
        return (f"main article.content-area section.card-grid div.card-body p.lead-paragraph{base}, "
                f"main article.content-area section.card-grid div.card-body p.lead-paragraph.alt{i} > span")
    return base


def make_sheet(rnd, premium=False, default_bg=(255, 255, 255), rich=False, n_rules=None, tag="r", allow=None):
    """allow: optional set restricting the special features used."""
    target = 7.0 if premium else 4.5
    sh = Sheet()
    n = n_rules or rnd.choice([1, 2, 3, 4, 5, 6, 8, 10, 12, 16, 20, 25])
    feats = {}
    var_defs = []      # (name, value_text)
    items = []         # (depth_wrappers, text)

    def allowed(f):
        return allow is None or f in allow

    # shared variables prepared up front
    shared = {}
    vcount = [0]

    def new_var(value):
        # custom property names are case-sensitive: some names use upper-case letters, and some have a twin that differs only
        # in letter case and holds another value
        style = rnd.randrange(7)
        base = f"{tag}c{vcount[0]}"
        name = "--" + (base if style < 2 else base.replace("c", "Color", 1) if style < 4 else base.upper())
        if style == 5:
            # custom property names are identifiers: letters beyond ASCII are as good as any
            name = "--" + base + rnd.choice(["-gr\u00f6\u00dfe", "-\u0446\u0432\u0435\u0442", "-\u8272", "-couleur-fonc\u00e9e"])
        elif style == 6:
            name = "--" + rnd.choice(["_", "-", "x_"]) + base + rnd.choice(["_1", "--alt", "-2x"])
        vcount[0] += 1
        var_defs.append((name, value))
        if style in (3, 4) and allowed("var-case-twin"):
            twin = "--" + (base.replace("c", "Color", 1).lower() if style == 3 else base)
            if twin != name:
                var_defs.insert(rnd.randrange(len(var_defs) + 1), (twin, rnd.choice(["#111111", "#f5f5f5", "#7a7a7a", "rgb(200, 40, 40)"])))
        return name

    i = 0
    while i < n:
        sel = _selector(rnd, i, tag)
        f = set()
        own_bg = rnd.random() < 0.6
        bg = _bg(rnd) if own_bg else tuple(default_bg)
        cls = rnd.choice(["readable", "fixable", "fixable", "fixable", "hard", "readable"])
        t = _text_for(rnd, bg, target, cls)
        if t is None:
            cls = "readable"
            t = _text_for(rnd, bg, target, cls) or G.far_end(bg)
        f.add("cls:" + cls)
        decls = []
        text_val = _spell(rnd, t)
        r = rnd.random()
        src = "literal"
        if r < 0.06 and allowed("invalid"):
            text_val = rnd.choice(INVALID_VALUES)
            src = "invalid"
        elif r < 0.12 and allowed("var"):
            text_val = f"var({new_var(text_val)})"
            src = "var"
        elif r < 0.16 and allowed("var-chain"):
            inner = new_var(text_val)
            text_val = f"var({new_var(f'var({inner})')})"
            src = "var-chain"
        elif r < 0.20 and allowed("var-fallback"):
            text_val = f"var({new_var(text_val)}, {_spell(rnd, G.uniform(rnd), ['hex6', 'rgb'])})"
            src = "var-fallback"
        elif r < 0.23 and allowed("var-undefined-fallback"):
            text_val = f"var(--{tag}undefined{i}, {text_val})"
            src = "var-undefined-fallback"
        elif r < 0.25 and allowed("var-undefined"):
            text_val = f"var(--{tag}undefined{i})"
            src = "var-undefined"
        elif r < 0.39 and r >= 0.33 and allowed("translucent"):
            # translucent text: it is seen (and must be judged) over this rule's own background
            a = rnd.choice(["0.3", "0.5", "0.6", "0.75", "0.9", "0.95"])
            fg = tuple(t)
            form = rnd.randrange(4)
            if form == 0:
                text_val = "rgba(%d, %d, %d, %s)" % (fg + (a,))
            elif form == 1:
                text_val = SP.hsl_spelling(fg, alpha=a) or "rgba(%d, %d, %d, %s)" % (fg + (a,))
            elif form == 2:
                text_val = "rgb(%d, %d, %d, %s)" % (fg + (a,))
            else:
                text_val = "rgb(%d %d %d / %s)" % (fg + (a,))
            src = "translucent"
        elif r < 0.33 and allowed("var-shared"):
            # a second rule will use the same variable
            name = new_var(text_val)
            text_val = f"var({name})"
            src = "var-shared"
            shared[name] = (t, bg)
        f.add("src:" + src)
        if own_bg:
            bgv = _spell(rnd, bg, ["hex6", "hex3", "rgb", "hsl", "keyword", "HEX6"])
            if rnd.random() < 0.08 and allowed("bgvar"):
                bgv = f"var({new_var(bgv)})"
                f.add("bgvar")
            f.add("own-bg")
        cname = "color"
        if rnd.random() < 0.04 and allowed("upper"):
            cname = rnd.choice(["COLOR", "Color"])
            f.add("upper")
        imp = ""
        if rnd.random() < 0.1:
            imp = rnd.choice([" !important", "!important", " ! important"])
            f.add("important")
        parts = []
        if rnd.random() < 0.08 and allowed("repeat"):
            parts.append(f"color: {_spell(rnd, G.uniform(rnd))}")
            f.add("repeat")
        for _ in range(rnd.randrange(0, 3)):
            parts.append(rnd.choice(FILLER))
        if rnd.random() < 0.05 and allowed("comment-in-value") and src in ("literal", "var"):
            # a comment inside the colour value (CSS ignores it; it must survive like every other comment)
            text_val = text_val + " /* brand colour */" if rnd.random() < 0.7 else "/* was #123 */ " + text_val
            f.add("comment-in-value")
        parts.append(f"{cname}: {text_val}{imp}")
        if own_bg:
            bname = "background-color"
            if rnd.random() < 0.03 and allowed("upper"):
                bname = "BACKGROUND-COLOR"
                f.add("upper-bg")
            pos = rnd.randrange(len(parts) + 1)
            parts.insert(pos, f"{bname}: {bgv}")
        if rnd.random() < 0.15:
            parts.append(rnd.choice(FILLER))
        if rich and rnd.random() < 0.06 and allowed("hack"):
            parts.insert(rnd.randrange(len(parts) + 1), rnd.choice(VENDOR_HACKS))
            f.add("hack")
        if rich and rnd.random() < 0.15:
            parts.insert(rnd.randrange(len(parts) + 1), "/* inline comment ; } */")
        depth = 0
        if rnd.random() < 0.35:
            depth = rnd.choice([1, 1, 1, 2, 2, 3, 4])
            f.add(f"nested:{depth}")
        items.append((depth, sel, parts))
        feats[sel] = f
        i += 1
        if src == "literal" and i < n and rnd.random() < 0.12 and allowed("same-pair"):
            # the same colour pair again, in other notations (an answer remembered per colour pair, not per declaration,
            # would carry the first rule's notation here)
            sel2 = _selector(rnd, i, tag)
            parts2 = [f"color: {_spell(rnd, t)}"]
            if own_bg:
                parts2.append(f"background-color: {_spell(rnd, bg, ['hex6', 'hex3', 'rgb', 'hsl', 'keyword', 'HEX6'])}")
            items.append((0, sel2, parts2))
            feats[sel2] = {"src:literal", "same-pair-other-notation", "cls:" + cls} | ({"own-bg"} if own_bg else set())
            i += 1
        if src == "literal" and rnd.random() < 0.07 and allowed("dup-selector"):
            # the very same rule (same selector, same declarations) a second time, at top level or inside an at-rule
            items.append((rnd.choice([0, 1, 2]), sel, list(parts)))
            feats[sel].add("dup-selector")
        if src == "var-shared" and i < n:
            # the sharing rule
            sel2 = _selector(rnd, i, tag)
            f2 = {"src:var-shared", "cls:shared-second"}
            if rnd.random() < 0.5 or not allowed("var-shared-diff-bg"):
                bg2 = bg
                f2.add("shared-same-bg")
                feats[sel].add("shared-same-bg")
            else:
                bg2 = _bg(rnd)
                f2.add("shared-diff-bg")
                feats[sel].add("shared-diff-bg")
            f2.add("own-bg")
            parts2 = [f"color: {text_val}", f"background-color: {_spell(rnd, bg2, ['hex6', 'rgb'])}"]
            rnd.shuffle(parts2)
            items.append((0, sel2, parts2))
            feats[sel2] = f2
            i += 1

    # ---- assemble text
    out = []
    nl = "\r\n" if (rich and rnd.random() < 0.1) else "\n"
    if rich and rnd.random() < 0.3:
        out.append('@charset "utf-8";')
    if rich:
        for x in RICH_TOP:
            if x.startswith("@import") and rnd.random() < 0.3:
                out.append(x)
    root_sel = rnd.choice([":root", "html"])
    root_parts = [f"{name}: {val}" for name, val in var_defs]
    if rnd.random() < 0.14 and allowed("rootcolor"):
        rb = tuple(default_bg)
        rt = _text_for(rnd, rb, target, rnd.choice(["fixable", "readable"])) or G.far_end(rb)
        root_parts.insert(rnd.randrange(len(root_parts) + 1), f"color: {_spell(rnd, rt)}")
        feats[root_sel] = {"rootcolor", "src:literal"}
    if rich and rnd.random() < 0.05 and root_parts and allowed("hack"):
        root_parts.append(rnd.choice(VENDOR_HACKS))
        feats.setdefault(root_sel, set()).add("hack")
    if root_parts:
        if len(root_parts) > 2 and rnd.random() < 0.3:
            k = rnd.randrange(1, len(root_parts))
            out.append(_fmt_rule(rnd, root_sel, root_parts[:k]))
            body = [(0, root_sel, root_parts[k:])]
        else:
            body = [(0, root_sel, root_parts)]
    else:
        body = []
    feats.setdefault(root_sel, set())
    pending = body + items
    if rnd.random() < 0.15 and body:
        # variables defined *after* their use
        pending = items + body
    sib_count = [0]
    extras = [x for x in RICH_TOP if not x.startswith("@import")] if rich else ["/* section */", "@font-face { font-family: X; src: url(x.woff) }", ".plain { margin: 0 }"]
    for depth, sel, parts in pending:
        if rnd.random() < (0.35 if rich else 0.12):
            out.append(rnd.choice(extras))
        rule = _fmt_rule(rnd, sel, parts)
        for d in range(depth):
            # blocks also hold siblings without a text colour, before and after the rule: plain rules, comments, and further
            # at-rules (with nothing for the tool to do inside them)
            pre = _sibling(rnd, sib_count) + " " if rnd.random() < 0.25 else ""
            post = " " + _sibling(rnd, sib_count) if rnd.random() < 0.4 else ""
            rule = f"{rnd.choice(MEDIA)} {{{nl if rnd.random() < .7 else ' '}{pre}{rule}{post}{nl if rnd.random() < .7 else ' '}}}"
        out.append(rule)
    if rich and rnd.random() < 0.5:
        out.append(rnd.choice(extras))
    sh.text = nl.join(out) + (nl if rnd.random() < 0.8 else "")
    sh.features = {k: sorted(v) for k, v in feats.items()}
    sh.n_rules = len(items)
    return sh


def _sibling(rnd, counter):
    counter[0] += 1
    k = counter[0]
    return rnd.choice([f".sib{k} {{ margin: 0 }}", f"@media (min-width: {k}px) {{ .sib{k} {{ padding: 1px }} }}", "/* sibling note */",
                       f"@supports (display: grid) {{ @media print {{ .sib{k} {{ margin: 0 }} }} }}", f".sib{k}{{padding:2rem}} .sib{k}b{{margin:1px}}"])


def _fmt_rule(rnd, sel, parts):
    style = rnd.randrange(4)
    if style == 0:
        return f"{sel} {{ " + "; ".join(parts) + " }"
    if style == 1:
        return f"{sel} {{\n  " + ";\n  ".join(parts) + ";\n}"
    if style == 2:
        return f"{sel}{{" + ";".join(parts) + "}"
    return f"{sel}\n{{\n\t" + " ;\n\t".join(parts) + "\n}"
