"""Worker process: python -m cmv.worker <prop-module> <shard.json> <out.json>

Imports the tree under test, runs props.<module>.work(shard, rec), writes the
record.  Anything that goes wrong in the harness itself (not in an observed
library call - those are caught and judged inside work()) is reported as
'error' and makes the run INCONCLUSIVE, never a violation.
"""
import faulthandler
import json
import os
import sys
import traceback


def main():
    modname, shard_path, out_path = sys.argv[1:4]
    faulthandler.enable()
    from cmv import env
    from cmv.rec import Rec

    rec = Rec()
    out = {}
    try:
        env.use_tree()
        import importlib

        mod = importlib.import_module(f"cmv.props.{modname}")
        with open(shard_path) as f:
            shard = json.load(f)
        from cmv import reach
        reach.start()
        try:
            mod.work(shard, rec)
        finally:
            rec.reached.update(reach.stop())
    except env.Inconclusive as e:
        rec.inconc(str(e))
    except BaseException as e:  # harness failure
        out["error"] = f"{type(e).__name__}: {e}\n{traceback.format_exc()[-3000:]}"
    out["rec"] = rec.dump()
    tmp = out_path + ".tmp"
    with open(tmp, "w") as f:
        json.dump(out, f, default=repr)
    os.replace(tmp, out_path)


if __name__ == "__main__":
    main()
