"""C01 - make_readable's success flag is exactly the WCAG verdict on the
returned colour (as a CSS consumer reads it back)."""
from cmv import pairwork as PW, contracts
from cmv.gen import colors as G, spellings as SP
from cmv.oracles import wcag, csscolor

ID = "C01"
LEVEL = "exploration"
ORACLES = ("wcag", "csscolor")
RULE = ("pairs drawn per class (uniform, within +-3% of 3.0/4.5/7.0, one-8-bit-step straddles, grey x grey, "
        "named x named, text=bg, black/white/grey bg, mid-tone bg both sides, below-minimum) in a random accepted "
        "spelling (incl. translucent text) x (mode,large,very_readable); each make_readable result is read back by "
        "the CSS reference and judged with the WCAG oracle; a contract on check_and_fix_contrast judges every "
        "internal call too. Non-trivial = original oracle ratio below the minimum (optimiser actually ran); "
        "distinct = distinct (text,bg,spelling kinds,config).")
ASSUMPTIONS = ["oracles/wcag.py and oracles/csscolor.py are correct readings of WCAG 2 / CSS Color 3 (self-tested)",
               "tinycss2 keyword table for the named-colour lattice"]
ENUMERATED = {"quick": [], "thorough": ["all 216 x 216 web-safe colour pairs (one configuration each)", "every third grey level squared (two configurations each)"]}
MUST_OBSERVE = {"any": ["verdicts_judged"]}   # the contract on the internal function is auxiliary
SIZES = {"quick": dict(pairs=2200, cfgs=3, lattice=0, bulk=60),
         "thorough": dict(pairs=11000, cfgs=12, lattice=1, bulk=600)}


def shards(tier, seed):
    z = SIZES[tier]
    cases = PW.build_cases(seed, "c01", z["pairs"], per_pair_configs=z["cfgs"])
    out = [{"kind": "pairs", "cases": c} for c in PW.chunk(cases, 64 if tier == "thorough" else 16)]
    if z["lattice"]:
        names = sorted(csscolor.keywords())
        for i in range(16):
            out.append({"kind": "lattice", "names": names[i::16], "all": names})
    if tier == "thorough":
        out += [{"kind": "pairs", "cases": c} for c in PW.chunk(PW.lattice_cases(seed, "c01", "websafe", 1), 32)]
        out += [{"kind": "pairs", "cases": c} for c in PW.chunk(PW.lattice_cases(seed, "c01", "grey", 2), 16)]
    out.append({"kind": "bulk", "seed": seed, "n": z["bulk"]})
    out.append({"kind": "flags", "seed": seed, "n": 90 if tier == "quick" else 900})
    return out


# ---------------------------------------------------------------- judges
def judge_verdict(case, obs, rec):
    bg = obs["bgi"]
    if "alpha" not in case and tuple(obs["bg_rgb"]) != bg:
        rec.count("bg_parse_differs_from_reference(C07)")
    for (mode, large, vr), out in obs["res"].items():
        mn = wcag.minimum(large, vr)
        key = (case["t"], case["b"], case["tk"], case["bk"], mode, large, vr)
        if out[0] == "EXC":
            rec.violation(f"make_readable raised {out[1]}", _mk(case, mode, large, vr, out))
            continue
        colour, success = out
        rec.count("verdicts_judged")
        rec.count(f"outcome:mode{mode}:" + ("unchanged" if wcag.ratio(obs["orig"], bg) >= mn else ("fixed" if success else "failed")))
        if wcag.ratio(obs["orig"], bg) < mn:
            rec.nontrivial(key)
        rb = PW.readback(colour)
        if type(success) is not bool:
            rec.violation(f"success is not a bool: {success!r}", _mk(case, mode, large, vr, out))
            continue
        if rb is None:
            if success:
                rec.violation(f"success=True but returned colour {colour!r} is not a colour a CSS consumer can read",
                              _mk(case, mode, large, vr, out))
            else:
                rec.count("unreadable_result_on_failure(C06)")
            continue
        r = wcag.ratio(rb, bg)
        ok = wcag.verdicts(r, mn)
        if len(ok) == 2:
            rec.count("borderline_in_band")
        if success not in ok:
            rec.violation(
                f"text={case['text']!r} bg={case['bg']!r} mode={mode} large={large} vr={vr}: returned {colour!r} "
                f"success={success} but oracle ratio {r:.6f} vs minimum {mn}", _mk(case, mode, large, vr, out, r))
        if len(rec.samples) < 3 and wcag.ratio(obs["orig"], bg) < mn:
            rec.sample({"text": case["text"], "bg": case["bg"], "mode": mode, "large": large, "very_readable": vr,
                        "returned": colour, "success": success, "oracle_ratio": round(r, 5), "minimum": mn})


def _mk(case, mode, large, vr, out, r=None):
    c = {k: case[k] for k in ("text", "bg", "tk", "bk", "t", "b") if k in case}
    c.update({"mode": mode, "large": large, "vr": vr, "observed": repr(out), "oracle_ratio": r})
    return c


# ---------------------------------------------------------------- contract
def install_contract(lib, rec):
    opt = lib.mod("optimisation")
    if opt is None:
        rec.count("skipped:contract(no optimisation module)")
        return

    def cfc_verdict(text, bg, large, premium, result):
        rec.count("contract:check_and_fix_contrast")
        try:
            tuned, success = result
            rb = PW.readback(tuple(tuned) if isinstance(tuned, (list, tuple)) else tuned)
            bgi = PW.readback(tuple(bg) if isinstance(bg, (list, tuple)) else bg)
            if rb is None or bgi is None:
                rec.count("contract:unjudgeable")
                return True
            mn = wcag.minimum(large, premium)
            r = wcag.ratio(rb, bgi)
            if success not in wcag.verdicts(r, mn):
                rec.violation(f"check_and_fix_contrast({text!r},{bg!r},large={large},premium={premium}) -> "
                              f"{result!r} but oracle ratio {r:.6f} vs minimum {mn}",
                              {"contract": "check_and_fix_contrast", "text": repr(text), "bg": repr(bg),
                               "large": large, "premium": premium, "observed": repr(result)})
        except Exception as e:  # malformed result: judged at API level
            rec.count(f"contract:unjudgeable:{type(e).__name__}")
        return True

    orig, n = contracts.ensure(opt, "check_and_fix_contrast", cfc_verdict)
    if orig is None:
        rec.count("skipped:contract(attribute absent)")
    rec.count("contract_backend:" + contracts.BACKEND)


def work(shard, rec):
    from cmv.lib import Lib
    lib = Lib()
    install_contract(lib, rec)
    if shard["kind"] == "pairs":
        PW.run_cases(shard, rec, lib, [judge_verdict])
    elif shard["kind"] == "lattice":
        kw = csscolor.keywords()
        for tname in shard["names"]:
            for bname in shard["all"]:
                case = {"cls": "lattice", "t": list(kw[tname]), "b": list(kw[bname]), "tk": "keyword", "text": tname,
                        "bk": "keyword", "bg": bname, "cfgs": [[1, False, False]]}
                obs = PW.observe(case, lib)
                rec.ev()
                rec.count("lattice_pairs")
                if obs["skip"]:
                    rec.count("skipped:" + obs["skip"])
                    continue
                judge_verdict(case, obs, rec)
    elif shard["kind"] == "bulk":
        bulk(shard, rec, lib)
    elif shard["kind"] == "flags":
        flags(shard, rec, lib)


def flags(shard, rec, lib):
    """The verdict is a property of every make_readable call, also when a preview or a report is asked for."""
    import contextlib
    import io
    import os
    import tempfile
    d = os.path.join(os.environ.get("CMV_SCRATCH", tempfile.gettempdir()), "c01-flags")
    os.makedirs(d, exist_ok=True)
    os.chdir(d)
    rnd = G.rng("c01flags", shard["seed"])
    for i in range(shard["n"]):
        large, vr, mode = bool(i & 1), i % 3 != 0, i % 3
        g = G.below(rnd, large, vr, lo=0.5) if i % 4 else G.near_threshold(rnd)
        if not g:
            continue
        t, b = tuple(g[0]), tuple(g[1])
        tk, tsp = rnd.choice(SP.available(t))
        bk, bsp = rnd.choice(SP.available(b))
        show, save = [(True, False), (False, True), (True, True)][i % 3]
        case = {"text": SP.jsonable(tsp), "bg": SP.jsonable(bsp), "tk": tk, "bk": bk, "t": list(t), "b": list(b), "cfgs": [[mode, large, vr]], "show": show, "save": save}
        rec.ev()
        try:
            with contextlib.redirect_stdout(io.StringIO()), contextlib.redirect_stderr(io.StringIO()):
                out = lib.ColorPair(tsp, bsp, large_text=large).make_readable(mode=mode, very_readable=vr, show=show, save_report=save)
        except Exception as e:
            rec.count(f"flags_call_raised:{type(e).__name__}(C17)")
            continue
        rec.count("flag_verdicts_judged")
        obs = {"res": {(mode, large, vr): out}, "orig": t, "bgi": b, "bg_rgb": b, "skip": None}
        judge_verdict(case, obs, rec)


def bulk(shard, rec, lib):
    """The same verdict through make_readable_bulk's status string."""
    rnd = G.rng("c01bulk", shard["seed"])
    triples = G.pair_classes(rnd, shard["n"])
    for i in range(0, len(triples), 6):
        grp = triples[i:i + 6]
        mode = rnd.randrange(3)
        vr = rnd.random() < 0.5
        entries = []
        meta = []
        for cls, t, b in grp:
            large = rnd.random() < 0.5
            tk, tsp = rnd.choice(SP.available(tuple(t)))
            bk, bsp = rnd.choice(SP.available(tuple(b)))
            entries.append((tsp, bsp, large))
            meta.append((tuple(t), tuple(b), large))
        try:
            res = lib.make_readable_bulk(entries, mode=mode, very_readable=vr)
        except Exception as e:
            rec.violation(f"make_readable_bulk raised {type(e).__name__}: {e}", {"bulk": repr(entries), "mode": mode, "vr": vr})
            continue
        rec.ev(len(entries))
        for (colour, status), (t, b, large), ent in zip(res, meta, entries):
            rb = PW.readback(colour if not isinstance(colour, list) else tuple(colour))
            if rb is None:
                rec.count("bulk:unreadable_result(C06)")
                continue
            r = wcag.ratio(rb, b)
            rec.count("bulk_status_judged")
            aa = wcag.minimum(large, False)
            claims = status in ("readable", "very readable")
            if claims not in wcag.verdicts(r, aa):
                rec.violation(f"bulk entry {ent!r} mode={mode} vr={vr}: status {status!r} for {colour!r} but oracle ratio {r:.5f} (AA minimum {aa})",
                              {"bulk": repr(entries), "mode": mode, "vr": vr, "entry": repr(ent), "observed": repr((colour, status))})
            aaa = wcag.minimum(large, True)
            if (status == "very readable") not in wcag.verdicts(r, aaa):
                rec.violation(f"bulk entry {ent!r}: status {status!r} for {colour!r} but oracle ratio {r:.5f} (AAA minimum {aaa})",
                              {"bulk": repr(entries), "mode": mode, "vr": vr, "entry": repr(ent), "observed": repr((colour, status))})


def replay(case):
    from cmv.lib import Lib
    lib = Lib()
    if "contract" in case or "bulk" in case:
        print("replay: re-run the recorded call by hand:", case)
        return True
    text = SP.from_json(case["text"], case["tk"])
    bg = SP.from_json(case["bg"], case["bk"])
    pair = lib.ColorPair(text, bg, large_text=case["large"])
    out = pair.make_readable(mode=case["mode"], very_readable=case["vr"])
    rb = PW.readback(out[0])
    mn = wcag.minimum(case["large"], case["vr"])
    r = wcag.ratio(rb, tuple(case["b"])) if rb else None
    print(f"ColorPair({text!r}, {bg!r}, large_text={case['large']}).make_readable(mode={case['mode']}, very_readable={case['vr']}) -> {out!r}")
    print(f"read back {rb}, oracle ratio {r}, minimum {mn}; recorded observation was {case['observed']}")
    ok = rb is not None and out[1] in wcag.verdicts(r, mn)
    print("verdict matches oracle" if ok else "VERDICT DOES NOT MATCH ORACLE")
    return ok
