"""C17 - no output or files unless asked; previews and reports never change
the result."""
import os

from cmv import pairwork as PW
from cmv.audit import IOWindow
from cmv.gen import colors as G, spellings as SP
from cmv.oracles import wcag

ID = "C17"
LEVEL = "exploration"
ORACLES = ("wcag", "csscolor")
RULE = ("C01 pair classes in every accepted spelling (opaque kinds rotated, translucent kinds included) x outcome {unchanged, fixed, failed} x mode x "
        "(show, save_report) in all 4 combinations, inside an I/O window (sys.stdout/sys.stderr replacement, fd 1/2 redirection, audit hook for "
        "write-opens and filesystem mutations, cwd listing). Default path: ColorPair construction, is_valid/is_readable/errors, make_readable and "
        "make_readable_bulk produce no output, no event, no listing change. With flags: result == plain result, no exception, write-opens only for "
        "cm_colors_quick_report.html / cm_colors_bulk_report.html inside the cwd; fresh-interpreter windows: default path without cached bytecode, and "
        "save_report under a non-UTF-8 default text encoding (LC_ALL=C, UTF-8 mode off). Non-trivial = pair that needed fixing; distinct = (pair, spelling, config).")
ASSUMPTIONS = ["audit events cover Python-level file creation (open, os.*, shutil.*, tempfile.*, subprocess); bytecode caching is disabled in the harness",
               "stdout produced by show=True / 'Report generated' by save_report=True is asked-for output"]
MUST_OBSERVE = {"any": ["default_windows", "flag_calls:show", "flag_calls:save", "flag_calls:show+save", "bulk_default_windows", "bulk_report_calls", "outcome:fixed", "outcome:failed", "outcome:unchanged", "lenient_or_invalid_windows"]}
SIZES = {"quick": 1600, "thorough": 16000}
ALLOWED = {"cm_colors_quick_report.html", "cm_colors_bulk_report.html"}


def shards(tier, seed):
    return [{"kind": "io", "seed": seed, "idx": i, "n": SIZES[tier] // 16} for i in range(16)] + \
           [{"kind": "fresh", "seed": seed, "idx": i, "n": 3 if tier == "quick" else 20} for i in range(4)]


FRESH_SCRIPT = """
import sys
sys.path.insert(0, %r)
from cm_colors import ColorPair, Color, make_readable_bulk
cases = %r
for text, bg, large, mode, vr in cases:
    p = ColorPair(text, bg, large_text=large)
    p.is_valid, p.errors, p.is_readable
    p.make_readable(mode=mode, very_readable=vr)
make_readable_bulk([(c[0], c[1], c[2]) for c in cases], mode=1)
Color("#abc").to_hex()
"""


LOCALE_SCRIPT = """
import sys, os, io
sys.path.insert(0, %r)
from cm_colors import ColorPair, make_readable_bulk
cases = %r
out = []
real = sys.stdout
for text, bg, large, mode, vr in cases:
    plain = ColorPair(text, bg, large_text=large).make_readable(mode=mode, very_readable=vr)
    sys.stdout = io.StringIO()
    try:
        try:
            rep = ColorPair(text, bg, large_text=large).make_readable(mode=mode, very_readable=vr, save_report=True)
        except Exception as e:
            rep = "RAISED %%s: %%s" %% (type(e).__name__, e)
    finally:
        sys.stdout = real
    out.append((repr(plain), repr(rep)))
entries = [(c[0], c[1], c[2]) for c in cases]
plain = make_readable_bulk(entries, mode=1)
sys.stdout = io.StringIO()
try:
    try:
        rep = make_readable_bulk(entries, mode=1, save_report=True)
    except Exception as e:
        rep = "RAISED %%s: %%s" %% (type(e).__name__, e)
finally:
    sys.stdout = real
out.append((repr(plain), repr(rep)))
import json
print(json.dumps({"pairs": out, "files": sorted(n for n in os.listdir(".") if not n.startswith(".pyc"))}))
"""


def report_under_c_locale(shard, rec, rnd, k):
    """save_report in a process whose default text encoding is not UTF-8 (LC_ALL=C with UTF-8 mode and locale coercion off, a legacy
    code page): the report is a file the library writes itself, so the result must still equal the plain call's and nothing raises.
    (show is not exercised here: a preview printed to an ASCII-only stdout fails on the unchanged tree like any print of a non-ASCII
    character would - the environment is not one of the property's axes, see DESIGN section 6.)"""
    import json
    import subprocess
    import sys
    import tempfile
    from cmv import env
    cases = []
    for cls, t, b in G.pair_classes(rnd, 4):
        tk, tsp = rnd.choice(SP.available(tuple(t), ["hex6", "rgb", "hsl", "tuple", "keyword"]))
        cases.append((tsp, tuple(b), rnd.random() < 0.4, rnd.randrange(3), rnd.random() < 0.5))
    cases.append(("#777777", "#ffffff", False, 1, False))
    d = tempfile.mkdtemp(prefix="c17locale-", dir=os.environ.get("CMV_SCRATCH"))
    e = dict(os.environ)
    e.update({"PYTHONDONTWRITEBYTECODE": "1", "LC_ALL": "C", "LANG": "C", "PYTHONUTF8": "0", "PYTHONCOERCECLOCALE": "0"})
    e.pop("PYTHONPATH", None)
    e.pop("PYTHONIOENCODING", None)
    p = subprocess.run([sys.executable, "-c", LOCALE_SCRIPT % (env.SRC, cases)], cwd=d, env=e, stdout=subprocess.PIPE, stderr=subprocess.PIPE, timeout=600)
    rec.ev()
    rec.count("c_locale_report_windows")
    case = {"lenient": repr(cases[0][0]), "bg": repr(cases[0][1]), "fresh": True, "locale": "C"}
    try:
        res = json.loads(p.stdout.decode("ascii", "replace").strip().splitlines()[-1])
    except (ValueError, IndexError):
        rec.violation(f"C-locale process (save_report): exit {p.returncode}, stderr {p.stderr[-300:]!r}", case)
        return
    for plain, rep in res["pairs"]:
        rec.count("c_locale_report_calls")
        if plain != rep:
            rec.violation(f"default text encoding ASCII (LC_ALL=C, UTF-8 mode off): save_report=True gives {rep[:200]} but the plain call {plain[:200]}", case)
            return
    extra = [n for n in res["files"] if n not in ALLOWED]
    if extra:
        rec.violation(f"C-locale process (save_report) left files other than the documented reports: {extra[:4]}", case)


def fresh_default_path(shard, rec):
    """The very first calls of a fresh interpreter (lazy imports and compilation included, no cached bytecode for the tree
    under test): nothing on stdout / stderr, nothing created in the working directory."""
    import subprocess
    import sys
    import tempfile
    from cmv import env
    rnd = G.rng("c17fresh", shard["seed"], shard["idx"])
    for k in range(shard["n"]):
        cases = []
        for cls, t, b in G.pair_classes(rnd, 5):
            tk, tsp = rnd.choice(SP.available(tuple(t), ["hex6", "rgb", "hsl", "tuple", "keyword", "hex3"]))
            cases.append((tsp, tuple(b), rnd.random() < 0.4, rnd.randrange(3), rnd.random() < 0.5))
        cases.append(("rgba(0, 0, 0, 0.5)", "#123456", False, 2, True))
        d = tempfile.mkdtemp(prefix="c17fresh-", dir=os.environ.get("CMV_SCRATCH"))
        e = dict(os.environ)
        e.update({"PYTHONDONTWRITEBYTECODE": "1", "PYTHONWARNINGS": "default"})
        e.pop("PYTHONPATH", None)
        p = subprocess.run([sys.executable, "-X", "pycache_prefix=" + os.path.join(d, ".pyc-elsewhere"), "-c", FRESH_SCRIPT % (env.SRC, cases)], cwd=d, env=e,
                           stdout=subprocess.PIPE, stderr=subprocess.PIPE, timeout=600)
        rec.ev()
        rec.count("fresh_interpreter_windows")
        left = [n for n in os.listdir(d) if n != ".pyc-elsewhere"]
        if p.returncode != 0 or p.stdout or p.stderr or left:
            rec.violation(f"fresh interpreter, default path: exit {p.returncode}, stdout {p.stdout[:160]!r}, stderr {p.stderr[-300:]!r}, files {left[:4]}",
                          {"lenient": repr(cases[0][0]), "bg": repr(cases[0][1]), "fresh": True})
        rec.nontrivial(("fresh", shard["idx"], k))
        if k == 0:
            report_under_c_locale(shard, rec, rnd, k)


def file_events_ok(w, cwd, allowed):
    bad = []

    def in_cwd(path):
        p = os.path.realpath(os.path.join(cwd, path))
        return os.path.basename(p) if os.path.dirname(p) == os.path.realpath(cwd) else None

    def transient(path):
        # a scratch file in the working directory that exists neither before nor after the call (written, then renamed onto the report)
        n = in_cwd(path)
        return n is not None and n not in w._before and n not in w._after
    for ev in w.events:
        if ev[0] == "open-for-write":
            if in_cwd(ev[1]) in allowed or transient(ev[1]):
                continue
        elif ev[0] == "os.rename" and transient(ev[1]) and in_cwd(ev[2]) in allowed:
            continue
        elif ev[0] == "os.remove" and transient(ev[1]):
            continue
        bad.append(ev)
    for n in w.created + w.changed:
        if n not in allowed:
            bad.append(("listing", n, ""))
    for n in w.removed:
        bad.append(("removed", n, ""))
    return bad


def work(shard, rec):
    if shard["kind"] == "fresh":
        return fresh_default_path(shard, rec)
    from cmv.lib import Lib
    lib = Lib()
    base = os.path.join(os.environ.get("CMV_SCRATCH", "/tmp"), f"c17-{shard['idx']}")
    dirs = [os.path.join(base, "wd-a"), os.path.join(base, "wd-b"), os.path.join(base, "wd-a", "nested")]
    for dd in dirs:
        os.makedirs(dd, exist_ok=True)
    scratch = dirs[0]
    os.chdir(scratch)
    rnd = G.rng("c17", shard["seed"], shard["idx"])
    triples = G.pair_classes(rnd, shard["n"])
    kinds = SP.OPAQUE_KINDS
    # make sure the lazily imported modules are loaded before any window opens
    lib.ColorPair("#777", "#fff").make_readable()
    lenient_default_path(rec, lib, scratch, rnd)
    for i, (cls, t, b) in enumerate(triples):
        t, b = tuple(t), tuple(b)
        if i % 5 == 4:
            k = (SP.TRANSLUCENT_KINDS + SP.TRANSLUCENT_KINDS_X)[(i // 5) % 8]
            text = SP.spell_translucent(t, rnd.choice(["0.5", "0.75", "0.9", "1", "0.33"]), k)
        else:
            k = kinds[i % len(kinds)]
            text = SP.spell(t, k)
            if text is None:
                k = ["hsl", "rgb", "hex6", "tuple"][i % 4]
                text = SP.spell(t, k)
        if text is None:
            continue
        bk, bg = rnd.choice(SP.available(b))
        large, mode, vr = rnd.random() < 0.4, i % 3, rnd.random() < 0.5
        # the working directory changes between calls: "the working directory" is the one current at the time of the call
        scratch = dirs[i % len(dirs)]
        os.chdir(scratch)
        rec.count("cwd_changes")
        case = {"text": SP.jsonable(text), "tk": k, "bg": SP.jsonable(bg), "bk": bk, "large": large, "mode": mode, "vr": vr}
        rec.ev()
        # ---- default path
        try:
            with IOWindow(scratch) as w:
                pair = lib.ColorPair(text, bg, large_text=large)
                _ = (pair.is_valid, pair.errors, pair.is_readable, pair.text.rgb, pair.bg.to_hex())
                plain = pair.make_readable(mode=mode, very_readable=vr)
                plain2 = pair.make_readable(mode=mode, very_readable=vr, show=False, save_report=False)
        except Exception as e:
            rec.violation(f"default path raised {type(e).__name__}: {e} for text={text!r} bg={bg!r}", case)
            continue
        rec.count("default_windows")
        if not w.silent():
            rec.violation(f"default path not silent for text={text!r} bg={bg!r} mode={mode}: {w.describe()}", case)
            continue
        if not pair.is_valid:
            rec.count("skipped:invalid(C07)")
            continue
        if plain != plain2:
            rec.violation(f"explicit show=False/save_report=False changed the result: {plain!r} vs {plain2!r}", case)
        mn = wcag.minimum(large, vr)
        outcome = "unchanged" if wcag.ratio(pair.text.rgb, pair.bg.rgb) >= mn else ("fixed" if plain[1] else "failed")
        rec.count("outcome:" + outcome)
        rec.count("spelling:" + k)
        if outcome != "unchanged":
            rec.nontrivial((t, b, k, mode, large, vr))
        # ---- flag combinations
        for show, save in ((True, False), (False, True), (True, True)):
            name = "+".join(n for n, f in (("show", show), ("save", save)) if f)
            # the host's stdout is not always a text file object: tee/logger adapters with only write()/flush(), or None
            kind = ["stringio", "stringio", "minimal", "none"][(i + (1 if show else 0) + (2 if save else 0)) % 4]
            rec.count("stdout_kind:" + kind)
            try:
                with IOWindow(scratch, stdout_kind=kind) as w:
                    got = lib.ColorPair(text, bg, large_text=large).make_readable(mode=mode, very_readable=vr, show=show, save_report=save)
            except Exception as e:
                rec.violation(f"make_readable(show={show}, save_report={save}) raised {type(e).__name__}: {e} for text={text!r} bg={bg!r} mode={mode} "
                              f"large={large} vr={vr} [{outcome}]", dict(case, show=show, save=save))
                continue
            rec.count("flag_calls:" + name)
            if got != plain:
                rec.violation(f"make_readable(show={show}, save_report={save}) = {got!r} but the plain call gives {plain!r} (text={text!r} bg={bg!r})", dict(case, show=show, save=save))
            bad = file_events_ok(w, scratch, {"cm_colors_quick_report.html"} if save else set())
            if bad:
                rec.violation(f"make_readable(show={show}, save_report={save}) touched files other than the documented report: {bad[:4]} (text={text!r})", dict(case, show=show, save=save))
            if save and "cm_colors_quick_report.html" not in (w.created + w.changed):
                rec.violation(f"save_report=True did not write cm_colors_quick_report.html in the working directory (text={text!r})", dict(case, show=show, save=save))
            if not save and not show:
                pass
            if w.py_err or w.fd_err:
                rec.count("stderr_with_flags")
        if len(rec.samples) < 2 and outcome == "fixed":
            rec.sample({"text": SP.jsonable(text), "bg": SP.jsonable(bg), "mode": mode, "large": large, "vr": vr, "plain": list(plain),
                        "default_window": "silent (no stdout/stderr/fd output, 0 audit events, listing unchanged)", "with_show_and_save": "same result, only cm_colors_quick_report.html written"})
        # ---- bulk
        if i % 4 == 0:
            entries = [(text, bg, large), ("#777", "#fff"), ((10, 20, 30), (12, 22, 32))]
            try:
                with IOWindow(scratch) as w:
                    r0 = lib.make_readable_bulk(entries, mode=mode, very_readable=vr)
                    r00 = lib.make_readable_bulk([])
            except Exception as e:
                rec.violation(f"make_readable_bulk raised {type(e).__name__}: {e}", case)
                continue
            rec.count("bulk_default_windows")
            if not w.silent():
                rec.violation(f"make_readable_bulk default path not silent: {w.describe()}", case)
            try:
                with IOWindow(scratch) as w:
                    r1 = lib.make_readable_bulk(entries, mode=mode, very_readable=vr, save_report=True)
                    r10 = lib.make_readable_bulk([], save_report=True)
            except Exception as e:
                rec.violation(f"make_readable_bulk(save_report=True) raised {type(e).__name__}: {e} for {entries!r}", case)
                continue
            rec.count("bulk_report_calls")
            # ... and when the pairs arrive as a one-shot iterable
            try:
                with IOWindow(scratch) as w2:
                    r2 = lib.make_readable_bulk(zip([e[0] for e in entries], [e[1] for e in entries], [e[2] if len(e) == 3 else False for e in entries]),
                                                mode=mode, very_readable=vr, save_report=True)
                r2ref = lib.make_readable_bulk([(e[0], e[1], e[2] if len(e) == 3 else False) for e in entries], mode=mode, very_readable=vr)
                rec.count("bulk_report_iterable_calls")
                if r2 != r2ref:
                    rec.violation(f"make_readable_bulk(zip(...), save_report=True) returned {len(r2)} results, the plain call on the same entries {len(r2ref)}: {r2!r}", case)
            except TypeError:
                rec.count("one_shot_iterable_rejected")
            if r1 != r0 or r10 != r00:
                rec.violation(f"make_readable_bulk(save_report=True) = {r1!r} but plain = {r0!r}", case)
            bad = file_events_ok(w, scratch, {"cm_colors_bulk_report.html"})
            if bad:
                rec.violation(f"make_readable_bulk(save_report=True) touched files other than the documented report: {bad[:4]}", case)
        for n in ALLOWED:
            for dd in dirs:
                try:
                    os.remove(os.path.join(dd, n))
                except OSError:
                    pass


LENIENT = ["rgba(0, 0, 0, 50)", (0, 0, 0, 50), [10, 20, 30, 80], "20, 40, 200, 40", "(10,20,30)", "rgb 10 20 30", (0.5, 0.5, 0.5), (1.0, 0.0, 0.0),
           "rgb(10%, 20%, 30%)", "rgba(10,20,30,100)", "hsla(120, 50%, 25%, 30)", "10 20 30", (120.0, 0.5, 0.5), (200, 0.4, 0.6, 0.5), "  #ABC  ", "RED",
           "rgb(10.6, 20.2, 30.9)", "hsl(-30, 50%, 50%)", (12.0, 200.0, 99.0)]
INVALID = ["notacolor", "#12", "", "rgb(1,2)", "rgb(300,0,0)", (1, 2), (300, 0, 0), (None, 0.5, 0.5, 1.0), [None, 1, 2], "hsl(10, 200%, 50%)", "var(--x)", "inherit", "\x00", (1, 2, 3, 4, 5)]


def lenient_default_path(rec, lib, scratch, rnd):
    """Leniently accepted and invalid inputs: the default path must stay silent for them too."""
    bgs = ["#ffffff", (17, 17, 17), "rgb(200, 210, 220)"]
    for k, x in enumerate(LENIENT + INVALID):
        bg = bgs[k % len(bgs)]
        case = {"lenient": repr(x), "bg": repr(bg)}
        rec.ev()
        for text, back in ((x, bg), (bg, x)):
            try:
                with IOWindow(scratch) as w:
                    pair = lib.ColorPair(text, back, large_text=bool(k & 1))
                    _ = (pair.is_valid, pair.errors, pair.is_readable)
                    pair.make_readable(mode=k % 3, very_readable=bool(k & 2))
                    lib.make_readable_bulk([(text, back), ("#777", "#fff"), (text, back, True)], mode=k % 3)
            except Exception as e:
                if x in INVALID:
                    rec.count("skipped:invalid input raised (C14)")
                else:
                    rec.violation(f"default path raised {type(e).__name__}: {e} for text={text!r} bg={back!r}", case)
                continue
            rec.count("default_windows")
            rec.count("lenient_or_invalid_windows")
            if not w.silent():
                rec.violation(f"default path not silent for leniently accepted / invalid input text={text!r} bg={back!r}: {w.describe()}", case)
    # translucent text over a background that does not parse (and the other way round)
    for k, x in enumerate(INVALID):
        for t in ("rgba(0, 0, 0, 0.5)", (10, 20, 30, 0.4), "hsla(120, 50%, 25%, 0.3)", "rgb(0 0 0 / 0.5)"):
            try:
                with IOWindow(scratch) as w:
                    p = lib.ColorPair(t, x)
                    _ = (p.is_valid, p.errors, p.is_readable, p.make_readable())
                    lib.make_readable_bulk([(t, x), (x, t, True)])
            except Exception:
                rec.count("skipped:invalid input raised (C14)")
                continue
            rec.count("default_windows")
            rec.count("lenient_or_invalid_windows")
            if not w.silent():
                rec.violation(f"default path not silent for translucent text {t!r} over unparseable background {x!r}: {w.describe()}", {"lenient": repr(t), "bg": repr(x)})
    # gamut-surface text just below the very_readable minimum (the lightness and the chroma search disagree there)
    for k in range(40):
        g = G.gamut_surface(rnd, mn=rnd.choice([4.5, 7.0]))
        if not g:
            continue
        large = g and k % 2 == 0
        try:
            with IOWindow(scratch) as w:
                for mode in (0, 1, 2):
                    lib.ColorPair(g[0], g[1], large_text=large).make_readable(mode=mode, very_readable=True)
                    lib.ColorPair(g[0], g[1], large_text=large).make_readable(mode=mode)
        except Exception as e:
            rec.violation(f"default path raised {type(e).__name__}: {e} for {g}", {"lenient": repr(g[0]), "bg": repr(g[1])})
            continue
        rec.count("default_windows")
        rec.count("gamut_surface_windows")
        if not w.silent():
            rec.violation(f"default path not silent for text={g[0]} bg={g[1]} large={large}: {w.describe()}", {"lenient": repr(g[0]), "bg": repr(g[1])})
    rec.nontrivial(("lenient", len(LENIENT), len(INVALID)))


def replay(case):
    from cmv.lib import Lib
    import tempfile
    lib = Lib()
    d = tempfile.mkdtemp(prefix="c17-replay-")
    os.chdir(d)
    lib.ColorPair("#777", "#fff").make_readable()
    if "lenient" in case:
        text, bg = eval(case["lenient"]), eval(case["bg"])
        with IOWindow(d) as w:
            p = lib.ColorPair(text, bg)
            p.make_readable()
            lib.make_readable_bulk([(text, bg)])
        print(f"ColorPair({text!r},{bg!r}) default path:", "silent" if w.silent() else w.describe())
        return w.silent()
    text = SP.from_json(case["text"], case["tk"])
    bg = SP.from_json(case["bg"], case["bk"])
    ok = True
    with IOWindow(d) as w:
        plain = lib.ColorPair(text, bg, large_text=case["large"]).make_readable(mode=case["mode"], very_readable=case["vr"])
    print("plain:", plain, "silent" if w.silent() else w.describe())
    ok = ok and w.silent()
    for show, save in ((True, False), (False, True), (True, True)):
        try:
            with IOWindow(d) as w:
                got = lib.ColorPair(text, bg, large_text=case["large"]).make_readable(mode=case["mode"], very_readable=case["vr"], show=show, save_report=save)
            print(f"show={show} save_report={save}: {got!r}; created {w.created}")
            ok = ok and got == plain
        except Exception as e:
            print(f"show={show} save_report={save}: RAISED {type(e).__name__}: {e}")
            ok = False
    import shutil
    os.chdir("/")
    shutil.rmtree(d, ignore_errors=True)
    print("holds" if ok else "VIOLATED")
    return ok
