"""C02 - fixing never harms: readable colours are kept, contrast never drops."""
from cmv import pairwork as PW
from cmv.gen import colors as G, spellings as SP
from cmv.oracles import wcag

ID = "C02"
LEVEL = "exploration"
ORACLES = ("wcag", "csscolor")
RULE = ("pair classes re-weighted towards one-8-bit-step straddles of each threshold (40%), text=bg / ratio<1.2 (15%), "
        "mid-tone backgrounds with text on either side (25%), uniform/near (20%), random accepted spelling, "
        "x (mode,large,very_readable). Oracle: if original ratio >= minimum then success and read-back == original colour "
        "(composite for translucent text); else read-back ratio >= original ratio. Non-trivial = original below minimum "
        "or within 1% above it; distinct = (text,bg,kinds,config).")
ASSUMPTIONS = ["oracles wcag/csscolor (self-tested)", "translucent originals: the library's composite, accepted only within C13's 1.5 units of the exact blend"]
ENUMERATED = {"quick": [], "thorough": ["all 216 x 216 web-safe colour pairs (one configuration each)", "every third grey level squared (two configurations each)"]}
MUST_OBSERVE = {"any": ["kept_judged", "noharm_judged"]}
SIZES = {"quick": dict(pairs=2000, cfgs=4), "thorough": dict(pairs=10000, cfgs=12)}


def classes(rnd, n):
    out = []
    i = 0
    pat = ["hair", "hair", "hair", "gamut", "equal", "equal", "mid", "mid", "gamut", "uniform", "near", "hair", "hair", "equal", "mid", "gamut", "below", "hair", "vivid", "near"]
    while len(out) < n:
        c = pat[i % len(pat)]
        i += 1
        if c == "hair":
            g = G.hair(rnd)
            if g:
                out.append(("hair-", g[0], g[2]))
                out.append(("hair+", g[1], g[2]))
        elif c == "equal":
            t = G.uniform(rnd)
            b = t if rnd.random() < 0.4 else tuple(min(255, max(0, v + rnd.randrange(-9, 10))) for v in t)
            out.append(("equal", t, b))
        elif c == "mid":
            b = G.midtone_bg(rnd)
            end = rnd.choice([G.WHITE, G.BLACK])
            mn = rnd.choice(G.THRESHOLDS)
            t = G.steer(G.lerp(b, G.uniform(rnd), 0.3), b, mn * rnd.uniform(0.4, 1.01), toward=end)
            if t:
                out.append(("mid_light" if end == G.WHITE else "mid_dark", t, b))
        elif c == "gamut":
            g = G.gamut_surface(rnd)
            if g:
                out.append(("gamut_surface", g[0], g[1]))
        elif c == "vivid":
            out.extend(x for x in G.pair_classes(rnd, 20) if x[0] == "vivid_unfavoured")
        elif c == "uniform":
            out.append(("uniform", G.uniform(rnd), G.uniform(rnd)))
        elif c == "near":
            g = G.near_threshold(rnd)
            if g:
                out.append(("near", g[0], g[1]))
        elif c == "below":
            g = G.below(rnd, rnd.random() < 0.5, rnd.random() < 0.5)
            if g:
                out.append(("below", g[0], g[1]))
    return out[:n]


def shards(tier, seed):
    z = SIZES[tier]
    cases = PW.build_cases(seed, "c02", z["pairs"], per_pair_configs=z["cfgs"], classes=classes)
    out = [{"kind": "pairs", "cases": c} for c in PW.chunk(cases, 64 if tier == "thorough" else 16)]
    out.append({"kind": "pairs", "cases": PW.same_string_cases(seed, "c02", n_bgs=6 if tier == "quick" else 24)})
    # gamut-surface text just below a minimum, under the configurations where the search target equals the minimum
    # (very_readable) as well as the ordinary ones: lightness-only and lightness+chroma candidates disagree most here
    def gamut(rnd, n):
        outc = []
        while len(outc) < n:
            g = G.gamut_surface(rnd, mn=rnd.choice([4.5, 4.5, 7.0, 3.0]))
            if g:
                outc.append(("gamut_surface", g[0], g[1]))
        return outc
    gc = PW.build_cases(seed, "c02gamut", 1600 if tier == "quick" else 16000, per_pair_configs=1, translucent_every=0, classes=gamut)
    for i, c in enumerate(gc):
        c["cfgs"] = [[i % 3, True, True], [(i + 1) % 3, False, True], [(i + 2) % 3, bool(i & 1), False]]
    out += [{"kind": "pairs", "cases": c} for c in PW.chunk(gc, 16)]
    if tier == "thorough":
        out += [{"kind": "pairs", "cases": c} for c in PW.chunk(PW.lattice_cases(seed, "c02", "websafe", 1), 32)]
        out += [{"kind": "pairs", "cases": c} for c in PW.chunk(PW.lattice_cases(seed, "c02", "grey", 2), 16)]
    return out


def judge(case, obs, rec):
    bg = obs["bgi"]
    orig = obs["orig"]
    c0 = wcag.ratio(orig, bg)
    for (mode, large, vr), out in obs["res"].items():
        mn = wcag.minimum(large, vr)
        cs = {k: case[k] for k in ("text", "bg", "tk", "bk", "t", "b")}
        cs.update({"mode": mode, "large": large, "vr": vr, "observed": repr(out), "orig": list(orig)})
        if out[0] == "EXC":
            rec.violation(f"make_readable raised {out[1]}", cs)
            continue
        colour, success = out
        rb = PW.readback(colour)
        already = wcag.verdicts(c0, mn)
        if c0 < mn * 1.01:
            rec.nontrivial((case["t"], case["b"], case["tk"], case["bk"], mode, large, vr))
        if already == {True}:
            rec.count("kept_judged")
            if success is not True or rb is None or tuple(rb) != tuple(orig):
                rec.violation(f"text={case['text']!r} bg={case['bg']!r} mode={mode} large={large} vr={vr}: original ratio {c0:.5f} >= {mn} "
                              f"but got {out!r} (reads back {rb}, original {orig})", cs)
        else:
            if rb is None:
                rec.count("unreadable_result(C06)")
                continue
            rec.count("noharm_judged")
            r = wcag.ratio(rb, bg)
            rec.maxi("max_gain", round(r - c0, 4))
            if r < c0 - 1e-12:
                rec.violation(f"text={case['text']!r} bg={case['bg']!r} mode={mode} large={large} vr={vr}: contrast dropped from {c0:.6f} to {r:.6f} "
                              f"(returned {colour!r}, success={success})", cs)
            if len(already) == 2:
                rec.count("borderline_in_band")
        if len(rec.samples) < 3 and c0 < mn:
            rec.sample({"text": case["text"], "bg": case["bg"], "config": [mode, large, vr], "original_ratio": round(c0, 5),
                        "returned": colour, "success": success, "returned_ratio": round(wcag.ratio(rb, bg), 5) if rb else None})


def work(shard, rec):
    from cmv.lib import Lib
    lib = Lib()
    PW.run_cases(shard, rec, lib, [judge], on_skip=composite_skip)


def composite_skip(case, obs, rec):
    """'after compositing any transparency': a composite that is not the source-over blend over the pair's own background
    (beyond the 1.5 units C13 grants) means the colour that is kept / fixed is not the original text colour."""
    if obs["skip"] == "composite outside C13 tolerance":
        rec.violation(f"text={case['text']!r} bg={case['bg']!r}: the library works on composite {obs.get('text_rgb')} but the text over its own background "
                      f"is {obs.get('exact')}", {k: case[k] for k in ("text", "bg", "tk", "bk", "t", "b")} | {"mode": 1, "large": False, "vr": False, "observed": "composite", "orig": case["t"]})


def replay(case):
    from cmv.lib import Lib
    lib = Lib()
    text = SP.from_json(case["text"], case["tk"])
    bg = SP.from_json(case["bg"], case["bk"])
    pair = lib.ColorPair(text, bg, large_text=case["large"])
    out = pair.make_readable(mode=case["mode"], very_readable=case["vr"])
    rb = PW.readback(out[0])
    b = tuple(case["b"])
    orig = tuple(case["orig"])
    c0 = wcag.ratio(orig, b)
    mn = wcag.minimum(case["large"], case["vr"])
    r = wcag.ratio(rb, b) if rb else None
    print(f"ColorPair({text!r}, {bg!r}, large_text={case['large']}).make_readable(mode={case['mode']}, very_readable={case['vr']}) -> {out!r}")
    print(f"original {orig} ratio {c0}; returned reads back {rb} ratio {r}; minimum {mn}")
    if c0 >= mn:
        ok = out[1] is True and rb == orig
    else:
        ok = rb is not None and r >= c0 - 1e-12
    print("holds" if ok else "VIOLATED")
    return ok
