"""C07 - CSS colour values parse to the colour CSS defines."""
from fractions import Fraction

from cmv.gen import colors as G
from cmv.oracles import csscolor

ID = "C07"
LEVEL = "exploration"
ORACLES = ("csscolor",)
RULE = ("hex: all 2^24 '#rrggbb' (thorough) / 2^20 stratified (quick) with upper-case and '#'-less variants on a sample, all 4096 '#rgb' x "
        "{lower, upper, no-#}; all 148 keywords x 6 case/padding variants; grammar-generated rgb()/rgba()/hsl()/hsla() strings: integer and "
        "percentage components with 0-6 fraction digits, leading zeros, '.5', explicit '+', hue in [-1080,1440] incl. sector boundaries "
        "+-1e-6 and multiples of 360 missed by 1e-14..1e-22, s/l at 0/50/100%, alpha at 0/1/adjacent decimals, whitespace from {'',' ','\\t','\\n'} at every legal slot, function name in "
        "three cases, random opaque backgrounds. Oracle: exact-rational CSS Color 3 reader; opaque: each channel in the accepted nearest set "
        "(both neighbours at a tie); translucent: within 1.5 of the exact blend; equivalent spellings give identical results; Color(s).rgb "
        "equals parse_color_to_rgb(s). Non-trivial = every distinct string judged.")
ASSUMPTIONS = ["oracles/csscolor.py is a correct CSS Color 3 reader (self-tested against tinycss2.color3 on 3,000 strings per run)",
               "keyword values from tinycss2 (a dependency), cross-checked against X11 rgb.txt in the self-test of this module"]
MUST_OBSERVE = {"any": ["hex6_checked", "hex3_checked", "keyword_checked", "func_checked:rgb", "func_checked:hsl", "func_checked:rgba", "func_checked:hsla", "equiv_checked"]}
EXHAUSTIVE = {"thorough": ["all 2^24 #rrggbb strings", "all 4096 #rgb strings x 3 variants", "148 keywords x 6 variants"],
              "quick": ["all 4096 #rgb strings x 3 variants", "148 keywords x 6 variants"]}
BLEND_TOL = 1.5 + 1e-6
WS = ["", " ", "\t", "\n", "  "]


def shards(tier, seed):
    out = []
    if tier == "thorough":
        out += [{"kind": "hex6", "r0": i * 4, "r1": i * 4 + 4, "step": 1} for i in range(64)]
        out += [{"kind": "func", "seed": seed, "idx": i, "n": 100000} for i in range(16)]
    else:
        out += [{"kind": "hex6", "r0": i * 16, "r1": i * 16 + 16, "step": 16} for i in range(16)]
        out += [{"kind": "func", "seed": seed, "idx": i, "n": 25000} for i in range(16)]
    out.append({"kind": "hex3kw", "seed": seed})
    return out


# ----------------------------------------------------------- generators
def _digits(rnd, x, lo_d=0, hi_d=6):
    d = rnd.randrange(lo_d, hi_d + 1)
    s = "%.*f" % (d, x)
    return s


def _num_variant(rnd, s):
    """Decorate a non-negative plain decimal: leading zeros, '+', '.5' form."""
    r = rnd.random()
    neg = s.startswith("-")
    body = s[1:] if neg else s
    if r < 0.12:
        body = "0" * rnd.randrange(1, 3) + body
    elif r < 0.2 and body.startswith("0.") and len(body) > 2:
        body = body[1:]
    if neg:
        return "-" + body
    if rnd.random() < 0.08:
        return "+" + body
    return body


def gen_int(rnd):
    v = rnd.choice([0, 255, 1, 254, 127, 128, rnd.randrange(256), rnd.randrange(256)])
    return _num_variant(rnd, str(v))


def gen_pct(rnd):
    r = rnd.random()
    if r < 0.2:
        v = rnd.choice([0, 100, 50, 0.2, 99.8, 49.8, 50.2, 33.3333, 66.6667])
        s = ("%g" % v)
    else:
        s = _digits(rnd, rnd.uniform(0, 100))
        if float(s) > 100:
            s = "100"
    return _num_variant(rnd, s) + "%"


def gen_hue(rnd):
    r = rnd.random()
    if r < 0.25:
        k = rnd.randrange(-18, 25) * 60
        e = rnd.choice([0, 0, 1e-6, -1e-6, 0.5, -0.5])
        v = k + e
        s = ("%.6f" % v).rstrip("0").rstrip(".") if e else str(k)
        if s in ("-0", ""):
            s = "0"
    elif r < 0.31:
        # a multiple of 360 missed by less than a float can resolve after wrapping (what "0 degrees" looks like after arithmetic):
        # x % 360 is then 0.0 or exactly 360.0
        k = rnd.choice([0, 0, 0, 360, -360, 720])
        tiny = "0." + "0" * rnd.randrange(13, 22) + rnd.choice(["1", "4", "7", "25"])
        s = ("-" + tiny) if k == 0 and rnd.random() < 0.6 else (tiny if k == 0 else ("%d" % k if rnd.random() < 0.3 else ("%d." % abs(k) + tiny[2:]) if k > 0 else "-" + "%d." % abs(k) + tiny[2:]))
    else:
        s = _digits(rnd, rnd.uniform(-1080, 1440))
    return _num_variant(rnd, s)


def gen_alpha(rnd):
    r = rnd.random()
    if r < 0.4:
        return rnd.choice(["0", "1", "0.5", ".5", "1.0", "0.0", "0.001", "0.999", "0.01", "0.99", "0.25", "0.75", "0.9999999999999999", "0.000001"])
    return _num_variant(rnd, _digits(rnd, rnd.random(), 1, 6))


def gen_func(rnd):
    fam = rnd.choice(["rgb", "rgbp", "rgba", "rgbap", "hsl", "hsla", "hsl", "hsla"])
    if fam in ("rgb", "rgba"):
        args = [gen_int(rnd) for _ in range(3)]
    elif fam in ("rgbp", "rgbap"):
        args = [gen_pct(rnd) for _ in range(3)]
    else:
        args = [gen_hue(rnd), gen_pct(rnd), gen_pct(rnd)]
    name = {"rgbp": "rgb", "rgbap": "rgba"}.get(fam, fam)
    if name.endswith("a"):
        args.append(gen_alpha(rnd))
    cased = rnd.choice([name, name, name.upper(), name.capitalize() if rnd.random() < 0.5 else name[0] + name[1:].upper()])
    w = (lambda: rnd.choice(WS)) if rnd.random() < 0.6 else (lambda: rnd.choice(["", " "]))
    body = (w() + (w() + "," + w()).join(args) + w())
    s = cased + "(" + body + ")"
    if rnd.random() < 0.15:
        s = rnd.choice(WS) + s + rnd.choice(WS)
    return name, s


def gen_bg(rnd):
    c = G.uniform(rnd)
    r = rnd.random()
    if r < 0.3:
        return None, (255, 255, 255)
    if r < 0.6:
        return c, c
    if r < 0.8:
        return "#%02x%02x%02x" % c, c
    return "rgb(%d, %d, %d)" % c, c


# ----------------------------------------------------------- judging
def judge(rec, parse, Color, s, name, bg_in=None, bg_rgb=(255, 255, 255)):
    case = {"fn": "func", "s": s, "bg": bg_in if not isinstance(bg_in, tuple) else list(bg_in)}
    try:
        ref = csscolor.parse(s)
    except csscolor.NotCSS as e:  # generator bug, not a library verdict
        rec.count("generator_produced_non_css")
        return None
    try:
        got = parse(s) if bg_in is None else parse(s, bg_in)
    except Exception as e:
        rec.violation(f"parse_color_to_rgb({s!r}{'' if bg_in is None else ', ' + repr(bg_in)}) raised {type(e).__name__}: {e}", case)
        return None
    rec.count("func_checked:" + name)
    if not (type(got) is tuple and len(got) == 3 and all(type(v) is int and 0 <= v <= 255 for v in got)):
        rec.violation(f"parse_color_to_rgb({s!r}) = {got!r} is not three ints in 0..255", case)
        return None
    if ref.alpha == 1:
        if not csscolor.accepts(ref.rgb, got):
            rec.violation(f"parse_color_to_rgb({s!r}) = {got}; CSS defines {tuple(round(float(c), 4) for c in ref.rgb)}", case)
    else:
        exact = csscolor.blend(ref.rgb, ref.alpha, bg_rgb)
        dev = max(abs(float(e) - g) for e, g in zip(exact, got))
        rec.maxi("max_blend_dev", round(dev, 6))
        if dev > BLEND_TOL:
            rec.violation(f"parse_color_to_rgb({s!r}, background={bg_in!r}) = {got}; exact blend {tuple(round(float(e), 3) for e in exact)} (dev {dev:.3f} > 1.5)", case)
    if Color is not None:
        try:
            if bg_in is None:
                c = Color(s)
            else:
                c = Color(s, background_context=Color(bg_in))
            if c.rgb != got:
                rec.violation(f"Color({s!r}).rgb = {c.rgb!r} but parse_color_to_rgb gives {got}", case)
        except Exception as e:
            rec.violation(f"Color({s!r}) raised {type(e).__name__}: {e}", case)
    return got


def equiv(rec, parse, variants, what):
    res = []
    for v in variants:
        try:
            res.append(parse(v))
        except Exception as e:
            res.append(f"{type(e).__name__}: {e}")
    rec.count("equiv_checked")
    if any(r != res[0] for r in res[1:]):
        rec.violation(f"equivalent spellings parse differently ({what}): " + "; ".join(f"{v!r} -> {r}" for v, r in zip(variants, res)),
                      {"fn": "equiv", "variants": variants})


def work(shard, rec):
    from cmv.lib import Lib
    lib = Lib()
    parse = lib.fn("color_parser", "parse_color_to_rgb")
    if parse is None:
        rec.inconc("parse_color_to_rgb not found")
        return
    k = shard["kind"]
    if k == "hex6":
        st = shard["step"]
        n = 0
        for r in range(shard["r0"], shard["r1"]):
            for g in range(256):
                for b in (range(256) if st == 1 else range((r * 13 + g) % st, 256, st)):
                    c = (r, g, b)
                    s = "#%02x%02x%02x" % c
                    try:
                        got = parse(s)
                    except Exception as e:
                        got = f"{type(e).__name__}: {e}"
                    n += 1
                    if got != c:
                        rec.violation(f"parse_color_to_rgb({s!r}) = {got!r}", {"fn": "hex", "s": s})
                    if (b & 15) == (g & 15):
                        up, bare = s.upper(), s[1:]
                        for v in (up, bare, bare.upper(), " " + s + "\t"):
                            try:
                                gv = parse(v)
                            except Exception as e:
                                gv = f"{type(e).__name__}: {e}"
                            if gv != c:
                                rec.violation(f"parse_color_to_rgb({v!r}) = {gv!r}, expected {c}", {"fn": "hex", "s": v})
                        rec.count("hex6_variants_checked", 4)
        rec.ev(n)
        rec.count("hex6_checked", n)
        rec.nt_disjoint += n
        rec.sample({"string": "#%02x80ff" % shard["r0"], "library": list(parse("#%02x80ff" % shard["r0"]))})
    elif k == "hex3kw":
        for i in range(4096):
            h = "%03x" % i
            want = tuple(int(ch * 2, 16) for ch in h)
            for v in ("#" + h, "#" + h.upper(), h, "#" + "".join(ch * 2 for ch in h)):
                try:
                    got = parse(v)
                except Exception as e:
                    got = f"{type(e).__name__}: {e}"
                rec.ev()
                rec.count("hex3_checked")
                if got != want:
                    rec.violation(f"parse_color_to_rgb({v!r}) = {got!r}, CSS defines {want}", {"fn": "hex", "s": v})
        rec.nt_disjoint += 4096 * 3
        for name, want in sorted(csscolor.keywords().items()):
            vs = [name, name.upper(), name.capitalize(), " " + name, name + "\n", "\t" + name.upper() + " "]
            for v in vs:
                try:
                    got = parse(v)
                except Exception as e:
                    got = f"{type(e).__name__}: {e}"
                rec.ev()
                rec.count("keyword_checked")
                if got != want:
                    rec.violation(f"parse_color_to_rgb({v!r}) = {got!r}, CSS defines {want}", {"fn": "hex", "s": v})
            try:
                if lib.Color(name).rgb != want:
                    rec.violation(f"Color({name!r}).rgb = {lib.Color(name).rgb!r}, CSS defines {want}", {"fn": "hex", "s": name})
            except Exception as e:
                rec.violation(f"Color({name!r}) raised {type(e).__name__}", {"fn": "hex", "s": name})
        rec.nt_disjoint += 148 * 6
        rnd = G.rng("c07tuples", shard["seed"])
        for i in range(3000):
            c = G.uniform(rnd)
            for v in (c, list(c)):
                rec.ev()
                rec.count("tuple_checked")
                try:
                    got = parse(v)
                except Exception as e:
                    got = f"{type(e).__name__}: {e}"
                if got != c:
                    rec.violation(f"parse_color_to_rgb({v!r}) = {got!r}", {"fn": "tuple", "s": list(c)})
        # spellings that differ only in whitespace but are different colours: the informal list '10 20 30' and the bare hex
        # '102030' (and '1 2 3' vs '123'); each is parsed right after the other, in both orders
        for i in range(1500):
            if i % 3 == 0:
                digs = "%d%d%d" % (rnd.randrange(10), rnd.randrange(10), rnd.randrange(10))
                spaced = " ".join(digs)
            else:
                parts = ["%02d" % rnd.randrange(100) for _ in range(3)]
                digs, spaced = "".join(parts), " ".join(parts)
            want_hex = csscolor.read("#" + digs)
            order = [spaced, digs] if i % 2 == 0 else [digs, spaced.replace(" ", ", "), digs]
            for v in order:
                try:
                    got = parse(v)
                except Exception as e:
                    got = f"{type(e).__name__}: {e}"
                if v == digs:
                    rec.ev()
                    rec.count("bare_hex_after_lookalike_checked")
                    if got != want_hex:
                        rec.violation(f"parse_color_to_rgb({v!r}) = {got!r} right after parsing {order[0]!r}; CSS hex value is {want_hex}",
                                      {"fn": "equiv", "variants": order})
        rec.sample({"string": "RebeccaPurple", "library": list(parse("RebeccaPurple")), "reference": list(csscolor.read("rebeccapurple"))})
    elif k == "func":
        rnd = G.rng("c07func", shard["seed"], shard["idx"])
        for i in range(shard["n"]):
            name, s = gen_func(rnd)
            bg_in, bg_rgb = (None, (255, 255, 255))
            if name.endswith("a"):
                bg_in, bg_rgb = gen_bg(rnd)
            got = judge(rec, parse, lib.Color if i % 4 == 0 else None, s, name, bg_in, bg_rgb)
            rec.ev()
            rec.nontrivial((s, repr(bg_in)))
            if name.endswith("a") and i % 4 == 0:
                # the same translucent string over a sequence of different backgrounds (and none): each call is judged on its own
                for bg2_in, bg2_rgb in ((None, (255, 255, 255)), gen_bg(rnd), gen_bg(rnd), (None, (255, 255, 255)), (bg_in, bg_rgb)):
                    judge(rec, parse, lib.Color if i % 8 == 0 else None, s, name, bg2_in, bg2_rgb)
                    rec.count("same_string_other_background")
                # ... and over a background *object* built from the very same string (text and background written identically):
                # the text is composited over what that background denotes (itself over white), not taken over from it
                try:
                    ref = csscolor.parse(s)
                    cb = lib.Color(s)
                    if ref.alpha != 1 and cb.is_valid:
                        ct = lib.Color(s, background_context=cb)
                        exact = csscolor.blend(ref.rgb, ref.alpha, cb.rgb)
                        rec.count("same_value_as_background_checked")
                        if ct.rgb is None or max(abs(float(e) - g) for e, g in zip(exact, ct.rgb)) > BLEND_TOL:
                            rec.violation(f"Color({s!r}, background_context=Color({s!r})).rgb = {ct.rgb}; the background denotes {cb.rgb}, exact blend over it "
                                          f"{tuple(round(float(e), 3) for e in exact)}", {"fn": "self_bg", "s": s})
                except csscolor.NotCSS:
                    pass
            if i % 5 == 0 and got is not None:
                # equivalent spellings: case, whitespace
                inner = s.strip(" \t\n\r\f")
                v2 = inner.upper() if inner != inner.upper() else inner.lower()
                v3 = " " + inner.replace(",", " ,\t") + "\n"
                if bg_in is None:
                    equiv(rec, parse, [s, v2, v3], "case/whitespace")
                else:
                    equiv(rec, lambda x: parse(x, bg_in), [s, v2, v3], "case/whitespace")
            if i == 0:
                rec.sample({"string": s, "background": repr(bg_in), "library": list(got) if got else None,
                            "reference_exact": [round(float(c), 4) for c in csscolor.parse(s).rgb], "alpha": str(csscolor.parse(s).alpha)})


def replay(case):
    from cmv.lib import Lib
    from cmv.rec import Rec
    lib = Lib()
    parse = lib.fn("color_parser", "parse_color_to_rgb")
    rec = Rec()
    if case["fn"] == "func":
        bg = case.get("bg")
        bg_in = tuple(bg) if isinstance(bg, list) else bg
        bg_rgb = (255, 255, 255) if bg_in is None else (bg_in if isinstance(bg_in, tuple) else csscolor.read(bg_in))
        name = csscolor.parse(case["s"]).kind
        got = judge(rec, parse, lib.Color, case["s"], name, bg_in, bg_rgb)
        print(f"parse_color_to_rgb({case['s']!r}, background={bg_in!r}) = {got}; reference {csscolor.parse(case['s'])}")
    elif case["fn"] == "self_bg":
        s = case["s"]
        ref = csscolor.parse(s)
        cb = lib.Color(s)
        ct = lib.Color(s, background_context=cb)
        exact = csscolor.blend(ref.rgb, ref.alpha, cb.rgb)
        print(f"Color({s!r}).rgb = {cb.rgb}; Color({s!r}, background_context=that).rgb = {ct.rgb}; exact blend {tuple(round(float(e), 3) for e in exact)}")
        if ct.rgb is None or max(abs(float(e) - g) for e, g in zip(exact, ct.rgb)) > BLEND_TOL:
            rec.violation("text composited over the wrong colour", case)
    elif case["fn"] == "equiv":
        equiv(rec, parse, case["variants"], "replay")
    else:
        s = case["s"]
        s = tuple(s) if isinstance(s, list) else s
        try:
            got = parse(s)
        except Exception as e:
            got = f"{type(e).__name__}: {e}"
        want = s if isinstance(s, tuple) else (csscolor.read(s) if csscolor.classify(s) else csscolor.read("#" + s.strip()))
        print(f"parse_color_to_rgb({s!r}) = {got!r}; CSS defines {want}")
        if got != want:
            rec.violation("mismatch", case)
    for v in rec.viol:
        print("VIOLATED:", v["what"])
    if not rec.viol:
        print("holds")
    return not rec.viol
