"""C14 - invalid colour input is reported, never raised."""
import random

from cmv.gen import colors as G

ID = "C14"
LEVEL = "exploration"
ORACLES = ()
RULE = ("strings: grammar-based near-miss mutation of valid spellings (truncation, missing ')', doubled commas, units px/deg/%, signs, 1e5, '..', "
        "nested parentheses, var(), inherit/transparent/currentcolor/none), random Unicode incl. non-ASCII digits, control characters, lone "
        "surrogates, 400-digit numbers, str.format / % / Template metacharacters, empty/blank; sequences: tuples and lists of length 0-6 over ints (|n|<=1e6, a few 2^70, "
        "10^400), floats incl. "
        "+-0.0/nan/+-inf, numeric and arbitrary strings, None, bools. For each input x: Color(x), ColorPair(x, valid), ColorPair(valid, x), "
        "ColorPair(x, x) never raise; valid => rgb is three ints 0..255, invalid => rgb None + non-empty message; invalid pair => 'Not Readable', "
        "(None, False) for every setting; bulk marks the entry invalid and the other entries equal their stand-alone results. "
        "Non-trivial = input the library reports invalid; distinct = distinct repr(input).")
ASSUMPTIONS = ["structural oracle only (no reference parser needed)", "nested sequences and non-sequence types are outside the statement and are not generated"]
MUST_OBSERVE = {"any": ["color_constructed", "pair_constructed", "invalid_inputs", "valid_inputs", "bulk_with_invalid_judged", "cls:near_miss", "cls:sequence"]}
SIZES = {"quick": 9000, "thorough": 190000}
SHARD_TIMEOUT = {"quick": 600, "thorough": 3600}

VALID_SEEDS = ["#777", "#a1b2c3", "abc", "rgb(10, 20, 30)", "rgba(10, 20, 30, 0.5)", "hsl(120, 50%, 25%)", "hsla(120, 50%, 25%, 0.3)",
               "rgb(10%, 20%, 30%)", "red", "rebeccapurple", "10, 20, 30", "(10,20,30)", "rgb 10 20 30", "hsl(0,0%,0%)", "RGB(255,255,255)"]
KEYWORDS = ["inherit", "transparent", "currentcolor", "none", "initial", "unset", "var(--x)", "var(--x, #777)", "calc(1+2)", "url(x)", "color(srgb 1 0 0)",
            "rgb(var(--r), 0, 0)", "hwb(0 0% 0%)", "lab(50% 0 0)", "oklch(0.5 0.1 20)"]
UNITS = ["px", "deg", "%", "em", "rad", "turn", "e", "e5", "E-3", "%%"]


def near_miss(rnd):
    s = rnd.choice(VALID_SEEDS)
    for _ in range(rnd.randrange(1, 4)):
        op = rnd.randrange(16)
        if not s:
            s = rnd.choice(VALID_SEEDS)
        p = rnd.randrange(len(s) + 1)
        if op == 0:
            s = s[:p]
        elif op == 1:
            s = s.replace(")", "", 1)
        elif op == 2:
            s = s.replace(",", ",,", 1)
        elif op == 3:
            s = s[:p] + rnd.choice(UNITS) + s[p:]
        elif op == 4:
            s = s[:p] + rnd.choice(["-", "+", "--", "+-"]) + s[p:]
        elif op == 5:
            s = s.replace("0", rnd.choice(["1e5", "..", "0..5", "1e400", "-0", "0x10", "١٢٣", "²", "1_0"]), 1)
        elif op == 6:
            s = s[:p] + rnd.choice(["(", ")", "((", "))", "()"]) + s[p:]
        elif op == 7:
            s = rnd.choice(KEYWORDS)
        elif op == 8:
            s = s[:p] + rnd.choice(["%", " %", "% %", "/", " / "]) + s[p:]
        elif op == 9:
            s = s.replace(",", rnd.choice([" ", ";", "/", ""]))
        elif op == 10:
            s = s[p:] + s[:p]
        elif op == 11:
            s = s + s
        elif op == 12:
            s = s.replace("(", rnd.choice([" (", "((", "[", ""]), 1)
        elif op == 13:
            s = s[:p] + rnd.choice(["\x00", "\n", "​", "\ud800", "\x7f", "\\", "'", '"', "١", "{}", "{0}", "{", "}", "%s", "%(a)s", "{a.b}"]) + s[p:]
        elif op == 14:
            s = s.upper() if rnd.random() < 0.5 else s.swapcase()
        else:
            s = s[:p] + str(rnd.choice([256, 300, -1, 1000, 361, 100.5, 1e20])) + s[p:]
    return s


def odd_hex(rnd):
    """'#' followed by what int(x, 16) / float() would accept but CSS does not: signs, blanks, underscores, prefixes."""
    n = rnd.choice([3, 6, 6, 6, 8])
    body = list("%0*x" % (n, rnd.randrange(16 ** n)))
    for _ in range(rnd.randrange(1, 3)):
        body[rnd.randrange(len(body)) if rnd.random() < 0.5 else 0] = rnd.choice(["-", "+", " ", "_", "x", "X", ".", "e", "\t", "０", "٣"])
    if rnd.random() < 0.2:
        body[:2] = list("0x")
    return "#" + "".join(body)


def random_unicode(rnd):
    n = rnd.choice([0, 1, 2, 3, 5, 8, 20])
    pools = [(0x20, 0x7e), (0x0, 0x1f), (0x80, 0x2ff), (0x660, 0x669), (0xff10, 0xff19), (0xd800, 0xdfff), (0x1f600, 0x1f64f), (0x2000, 0x206f)]
    out = []
    for _ in range(n):
        lo, hi = rnd.choice(pools)
        out.append(chr(rnd.randrange(lo, hi + 1)))
    return "".join(out)


def special_string(rnd):
    return rnd.choice(["", " ", "\t\n", "#", "##", "#12", "#1234", "#12345", "#1234567", "#ggg", "#-12", "rgb", "rgb(", "rgb()", "rgba()", "hsl()", "hsla()", "hsl(", ",", ",,", " , , ",
                       "9" * 400, "rgb(" + "9" * 400 + ",0,0)", "hsl(" + "9" * 400 + ",50%,50%)", "0." + "0" * 400 + "1, 2, 3", "1e309, 0, 0", "rgb(1e309,0,0)",
                       "hsl(nan, 50%, 50%)", "hsl(inf, 50%, 50%)", "hsla(0,0%,0%,nan)", "hsla(0, 0%, 0%, )", "hsla(, , , )", "hsla(1,2,3,4,5)", "hsl(1 2 3)", "hsl(%,%,%)",
                       "hsl(0, 5, 5)", "hsl(0, -5%, 50%)", "hsl(0, 150%, 50%)", "rgba(0,0,0,2)", "rgba(0,0,0,-1)", "rgba(0,0,0,101)", "rgb(256,0,0)", "rgb(-1,0,0)",
                       "rgb(0 0 0 / 50%)", "1 2", "1 2 3 4 5", "1,2,3,4,5,6", "( , )", "rgb (1,2,3)", "hsl (1,2%,3%)", "hsla(0deg,0%,0%,0.5)", "hsla(0,0%,0%,0.5", "hsla0,0%,0%,0.5)",
                       # text that means something to str.format / % / string.Template when spliced into a message template
                       "rgb(300, 2, 3) {}", "rgb(300, 2, 3) {name}", "rgba(1, 2, 3, 7) {0} {1}", "300, 2, 3 {", "{}", "{0}", "{x!r:>{y}}", "hsl(400, 2, 3) {}", "#12 {}",
                       "rgb(300, 2, 3) %s", "rgb(300, 2, 3) %(x)s %d", "%", "%s", "$x ${y}", "rgb(300,2,3) \\1 \\g<0>", "[1, 2, 300] {}", "(1, 2, 3, 4, 5) {}",
                       "None", "True", "nan", "inf", "-inf", "nan, nan, nan", "inf,inf,inf", "1e5,1e5,1e5", "٣, ٣, ٣", "１２, １２, １２", "²,²,²", "١٢٣"])


ELEMS_NUM = [0, 1, 2, 127, 128, 255, 256, -1, 300, 360, 361, 10 ** 6, -10 ** 6, 2 ** 70, -2 ** 70, 10 ** 400, -10 ** 400, 10 ** 309,
             # (ints beyond the interpreter's 4300-digit int -> str limit are deliberately not generated: the quantifier says "ints of
             # moderate magnitude", and a library that merely mentions repr(input) in its error message would raise on them)
             0.0, -0.0, 0.5, 1.0, 1.5, 0.999, 255.0, 255.5, 256.0, -0.5, 1e-9, 1e300, float("nan"), float("inf"), float("-inf"), 120.0, 359.9, 360.0, 100.0]
ELEMS_STR = ["0", "255", "50%", "100%", "0.5", "1", "abc", "", " ", "12px", "1e2", "-1", "nan", "inf", "٣", "None", "#fff", "red", "120", "50", ".5", "1.", "%"]


def sequence(rnd):
    n = rnd.choice([0, 1, 2, 3, 3, 3, 4, 4, 4, 4, 5, 6])
    mode = rnd.randrange(6)
    out = []
    for _ in range(n):
        if mode == 0:
            out.append(rnd.choice(ELEMS_NUM))
        elif mode == 1:
            out.append(rnd.choice(ELEMS_STR))
        elif mode == 2:
            out.append(rnd.choice([None, True, False, rnd.choice(ELEMS_NUM), rnd.choice(ELEMS_STR)]))
        elif mode == 3:   # hsl-like floats, where float() is applied to elements
            out.append(rnd.choice([None, 0.5, 0.25, 1.0, 0.0, "0.5", "x", True, float("nan"), rnd.random(), 120.0, 0.9]))
        elif mode == 4:
            out.append(rnd.choice([rnd.randrange(-5, 300), rnd.random() * 300 - 20, None]))
        else:
            out.append(rnd.choice(ELEMS_NUM + ELEMS_STR + [None, True, False]))
    return tuple(out) if rnd.random() < 0.5 else out


def gen_input(rnd, i):
    k = i % 10
    if k < 4:
        return "near_miss", near_miss(rnd)
    if k < 5:
        return "unicode", random_unicode(rnd)
    if k < 6:
        return ("special", special_string(rnd)) if rnd.random() < 0.5 else ("odd_hex", odd_hex(rnd))
    return "sequence", sequence(rnd)


def shards(tier, seed):
    return [{"kind": "fuzz", "seed": seed, "idx": i, "n": SIZES[tier]} for i in range(16)]


def R(x):
    """repr() that also works for ints beyond the interpreter's decimal-conversion limit (sys.get_int_max_str_digits)."""
    if type(x) is int and abs(x).bit_length() > 3000:
        return hex(x)
    if isinstance(x, (tuple, list)):
        inner = ", ".join(R(v) for v in x)
        return ("(" + inner + ("," if len(x) == 1 else "") + ")") if isinstance(x, tuple) else ("[" + inner + "]")
    return repr(x)


def jsonable(x):
    if isinstance(x, str):
        return {"str": x.encode("utf-8", "surrogatepass").hex()}
    return {"seq": "tuple" if isinstance(x, tuple) else "list", "items": [R(v) for v in x]}


def from_json(d):
    if "str" in d:
        return bytes.fromhex(d["str"]).decode("utf-8", "surrogatepass")
    items = [eval(v, {"nan": float("nan"), "inf": float("inf")}) for v in d["items"]]
    return tuple(items) if d["seq"] == "tuple" else items


def check_color(rec, lib, x, case, bgctx=False):
    """-> True/False (valid?) or None when a violation was recorded."""
    try:
        c = lib.Color(x)
        valid, rgb, err = c.is_valid, c.rgb, c.error
        hexv = c.to_hex()
    except BaseException as e:
        if isinstance(e, (KeyboardInterrupt, SystemExit, MemoryError)):
            raise
        rec.count("raised:" + type(e).__name__)
        rec.violation(f"Color({R(x)}) raised {type(e).__name__}: {e}", case, key=None)
        return None
    rec.count("color_constructed")
    if valid:
        if not (type(rgb) is tuple and len(rgb) == 3 and all(type(v) is int and 0 <= v <= 255 for v in rgb)):
            rec.violation(f"Color({R(x)}) is_valid but rgb = {R(rgb)} (must be three ints in 0..255)", case)
            return None
        return True
    if rgb is not None or not (isinstance(err, str) and err.strip()):
        rec.violation(f"Color({R(x)}) invalid but rgb={R(rgb)}, error={err!r} (rgb must be None with a non-empty message)", case)
        return None
    return False


def work(shard, rec):
    from cmv.lib import Lib
    lib = Lib()
    rnd = G.rng("c14", shard["seed"], shard["idx"])
    settings = [(m, v) for m in (0, 1, 2) for v in (False, True)]
    for i in range(shard["n"]):
        cls, x = gen_input(rnd, i)
        rec.ev()
        rec.count("cls:" + cls)
        case = {"x": jsonable(x), "cls": cls}
        v = check_color(rec, lib, x, case)
        if v is None:
            continue
        rec.count("valid_inputs" if v else "invalid_inputs")
        if not v:
            rec.nontrivial(R(x))
        good = rnd.choice(["#777", (10, 20, 30), "rgb(200, 200, 200)", "white"])
        for t, b, expect_valid in ((x, good, v), (good, x, v), (x, x, v)):
            try:
                p = lib.ColorPair(t, b, large_text=rnd.random() < 0.3)
                pv, errs, label = p.is_valid, p.errors, p.is_readable
            except BaseException as e:
                if isinstance(e, (KeyboardInterrupt, SystemExit, MemoryError)):
                    raise
                rec.violation(f"ColorPair({R(t)},{R(b)}) raised {type(e).__name__}: {e}", case)
                break
            rec.count("pair_constructed")
            if not pv:
                if label != "Not Readable" or not errs or not all(isinstance(m, str) and m for m in errs):
                    rec.violation(f"invalid ColorPair({R(t)},{R(b)}): is_readable={label!r}, errors={errs!r}", case)
                    break
                m, vr = settings[i % 6]
                try:
                    out = p.make_readable(mode=m, very_readable=vr)
                except BaseException as e:
                    rec.violation(f"invalid ColorPair({R(t)},{R(b)}).make_readable raised {type(e).__name__}: {e}", case)
                    break
                if out != (None, False):
                    rec.violation(f"invalid ColorPair({R(t)},{R(b)}).make_readable(mode={m},very_readable={vr}) = {R(out)}, expected (None, False)", case)
                    break
            elif label not in ("Not Readable", "Readable", "Very Readable"):
                rec.violation(f"ColorPair({R(t)},{R(b)}).is_readable = {label!r}", case)
                break
        if not v and i % 12 == 0:
            bulk_with_invalid(rec, lib, rnd, x, case)
        if cls == "sequence" and i % 10 == 6:
            bulk_equal_twins(rec, lib, x, case)
        if len(rec.samples) < 3 and not v and cls in ("near_miss", "sequence"):
            rec.sample({"input": R(x), "is_valid": False, "error": lib.Color(x).error})


_SINGLE = {}


def bulk_with_invalid(rec, lib, rnd, x, case):
    others = [("#777", "#fff"), ((10, 20, 30), (40, 50, 60), True), ("rgb(200, 10, 10)", "black"), ("hsl(120, 50%, 25%)", "#eee")]
    pos = rnd.randrange(len(others) + 1)
    where = rnd.randrange(3)
    bad = [(x, "#fff"), ("#000", x), (x, x, True)][where]
    entries = others[:pos] + [bad] + others[pos:]
    try:
        res = lib.make_readable_bulk(entries)
    except BaseException as e:
        if isinstance(e, (KeyboardInterrupt, SystemExit, MemoryError)):
            raise
        rec.violation(f"make_readable_bulk with invalid entry {R(bad)} at position {pos} raised {type(e).__name__}: {e}", case)
        return
    rec.count("bulk_with_invalid_judged")
    if len(res) != len(entries):
        rec.violation(f"make_readable_bulk returned {len(res)} results for {len(entries)} entries (invalid entry {R(bad)})", case)
        return
    col, status = res[pos]
    same = (col is bad[0]) or (type(col) is type(bad[0]) and R(col) == R(bad[0]))
    if status in ("readable", "very readable") or "invalid" not in str(status).lower() or not same:
        rec.violation(f"make_readable_bulk: invalid entry {R(bad)} reported as {R((col, status))} (must be returned unchanged and marked invalid)", case)
    for j, e in enumerate(entries):
        if j == pos:
            continue
        k = R(e)
        if k not in _SINGLE:
            _SINGLE[k] = lib.make_readable_bulk([e])[0]
        if res[j] != _SINGLE[k]:
            rec.violation(f"make_readable_bulk: entry {R(e)} gives {R(res[j])} next to invalid entry {R(bad)} but {R(_SINGLE[k])} alone", case)


def retyped(x):
    """The same sequence with its number types changed (int <-> float <-> bool): equal under ==, maybe another colour or
    another validity for the parser."""
    out = []
    for v in x:
        if isinstance(v, bool):
            out.append(int(v))
        elif isinstance(v, int) and abs(v) < 2 ** 53:
            out.append(float(v))
        elif isinstance(v, float) and v == v and abs(v) < 2 ** 53 and v == int(v):
            out.append(bool(int(v)) if int(v) in (0, 1) else int(v))
        else:
            out.append(v)
    return type(x)(out)


def bulk_equal_twins(rec, lib, x, case):
    """x next to a twin that compares equal to it: each entry keeps its own stand-alone result."""
    if not isinstance(x, (tuple, list)) or not x:
        return
    try:
        tw = retyped(x)
        if tw != x or all(type(a) is type(b) for a, b in zip(tw, x)):
            return
    except Exception:
        return
    for order in ((x, tw), (tw, x)):
        entries = [(order[0], "#000"), (order[1], "#000"), ("#fff", order[0]), ("#fff", order[1])]
        try:
            res = lib.make_readable_bulk(entries)
            alone = [lib.make_readable_bulk([e])[0] for e in entries]
        except BaseException as e:
            if isinstance(e, (KeyboardInterrupt, SystemExit, MemoryError)):
                raise
            rec.violation(f"make_readable_bulk with equal-comparing twins {R(order)} raised {type(e).__name__}: {e}", case)
            return
        rec.count("bulk_equal_twins_judged")
        if R(res) != R(alone):
            k = next(i for i in range(len(entries)) if R(res[i]) != R(alone[i]))
            rec.violation(f"make_readable_bulk: entry {R(entries[k])} gives {R(res[k])} next to its equal-comparing twin but {R(alone[k])} alone", case)
            return


def replay(case):
    from cmv.lib import Lib
    from cmv.rec import Rec
    lib = Lib()
    x = from_json(case["x"])
    rec = Rec()
    v = check_color(rec, lib, x, case)
    print(f"Color({R(x)}): valid={v}")
    if v is not None:
        for t, b in ((x, "#777"), ("#777", x), (x, x)):
            try:
                p = lib.ColorPair(t, b)
                print(f"ColorPair({R(t)},{R(b)}): valid={p.is_valid} is_readable={p.is_readable!r} make_readable={p.make_readable()!r}")
            except Exception as e:
                print(f"ColorPair({R(t)},{R(b)}) RAISED {type(e).__name__}: {e}")
                rec.violation("raised", case)
        if v is False:
            bulk_with_invalid(rec, lib, random.Random(0), x, case)
    for w in rec.viol:
        print("VIOLATED:", w["what"])
    return not rec.viol
