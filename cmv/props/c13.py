"""C13 - translucent text is judged as it will be seen over its own background."""
from fractions import Fraction

from cmv import pairwork as PW
from cmv.gen import colors as G, spellings as SP
from cmv.oracles import wcag, csscolor

ID = "C13"
LEVEL = "exploration"
ORACLES = ("wcag", "csscolor")
RULE = ("(foreground, alpha, background) triples: alpha in {0, 1, 0.5, 0.001, 0.999, 0.9999999999999999, 1e-5..1e-7, random 1-6 digits}, text spelled as "
        "rgba(), hsla(), RGBA tuple, RGBA list (and rgb() carrying an alpha, percentage alphas, the informal list, 0/1-channel and mixed int/float tuples, text and background written identically); background in every string and tuple form the reader accepts or itself translucent (composited over white). Oracle: "
        "pair.text.rgb within 1.5 units of the exact source-over blend over the pair's own background, alpha=1 -> the foreground's nearest "
        "8-bit value, alpha=0 -> the background exactly; is_readable equals the WCAG label of that composite; make_readable (3% of cases) "
        "obeys the C01/C02 relations on the composite. Non-trivial = 0 < alpha < 1 and background not white; distinct = (fg,alpha,bg,spelling).")
ASSUMPTIONS = ["oracles csscolor (exact blend on rationals) and wcag", "bound 1.5 is the property's own (0.5 rounding + <1 truncation in the hsla path)"]
MUST_OBSERVE = {"any": ["composite_judged", "label_judged", "fix_judged", "kind:rgba", "kind:hsla", "kind:rgba_tuple", "kind:rgba_list", "kind:rgb4", "kind:rgbslash", "kind:informal4"]}
BLEND_TOL = 1.5 + 1e-6
SIZES = {"quick": 12000, "thorough": 125000}
ALPHAS = ["0", "1", "0.5", "0.001", "0.999", "0.9999999999999999", "1.0", "0.0", "0.25", "0.1",
          # next to 0: as floats (RGBA tuples) these print in exponent notation
          "0.00001", "0.00005", "0.00009", "0.0000001"]
READ = {"AAA": "Very Readable", "AA": "Readable", "FAIL": "Not Readable"}


def shards(tier, seed):
    return [{"kind": "comp", "seed": seed, "idx": i, "n": SIZES[tier]} for i in range(16)] + \
           [{"kind": "grammar", "seed": seed, "idx": i, "n": SIZES[tier] // 4} for i in range(4)]


def grammar(shard, rec, lib):
    """Translucent texts written by C07's grammar (percentages, fractional hsl, odd whitespace, any hue): the foreground is not an
    8-bit colour, so rounding and truncation both bite - this is where the 1.5 bound is tight."""
    from cmv.props import c07
    rnd = G.rng("c13g", shard["seed"], shard["idx"])
    n = 0
    while n < shard["n"]:
        name, text = c07.gen_func(rnd)
        if not name.endswith("a"):
            continue
        n += 1
        bgc = G.uniform(rnd)
        bk, bg = rnd.choice(SP.available(bgc, ["hex6", "tuple", "rgb", "keyword", "list", "frac_tuple", "hsl_tuple", "str_tuple", "pct_tuple", "float_tuple"]))
        ref = csscolor.parse(text)
        case = {"text": text, "tk": name, "bg": SP.jsonable(bg), "bk": bk, "fg": [str(c) for c in ref.rgb], "alpha": str(ref.alpha), "bgc": list(bgc), "large": False, "grammar": True}
        rec.ev()
        try:
            pair = lib.ColorPair(text, bg)
            trgb, brgb, valid = pair.text.rgb, pair.bg.rgb, pair.is_valid
        except Exception as e:
            rec.violation(f"ColorPair({text!r},{bg!r}) raised {type(e).__name__}: {e}", case)
            continue
        rec.count("kind:grammar-" + name)
        if not valid or tuple(brgb) != tuple(bgc):
            rec.violation(f"ColorPair({text!r},{bg!r}) rejected / misread a valid pair: errors {pair.errors}, bg {brgb}", case)
            continue
        exact = csscolor.blend(ref.rgb, ref.alpha, brgb)
        dev = max(abs(float(e) - c) for e, c in zip(exact, trgb))
        rec.count("composite_judged")
        rec.maxi("max_composite_dev_grammar", round(dev, 6))
        if 0 < ref.alpha < 1:
            rec.nontrivial((text, bgc))
        if dev > BLEND_TOL:
            rec.violation(f"ColorPair({text!r},{bg!r}).text.rgb = {trgb}; exact blend over its own background {tuple(round(float(e), 3) for e in exact)} (dev {dev:.3f} > 1.5)", case)
            continue
        ratio = wcag.ratio(tuple(trgb), tuple(brgb))
        rec.count("label_judged")
        if pair.is_readable != READ[wcag.level(ratio, False)] and all(abs(ratio - th) > 1e-9 * th for th in (4.5, 7.0)):
            rec.violation(f"ColorPair({text!r},{bg!r}).is_readable = {pair.is_readable!r}; composite {trgb} on {brgb} has ratio {ratio:.4f}", case)


def work(shard, rec):
    from cmv.lib import Lib
    lib = Lib()
    if shard["kind"] == "grammar":
        return grammar(shard, rec, lib)
    rnd = G.rng("c13", shard["seed"], shard["idx"])
    alias_backgrounds(rec, lib, rnd)
    for i in range(shard["n"]):
        fg = G.uniform(rnd) if i % 5 else rnd.choice([(0, 0, 0), (255, 255, 255), (255, 0, 0), (128, 128, 128)])
        bgc = G.uniform(rnd) if i % 7 else rnd.choice([(0, 0, 0), (255, 255, 255), (17, 17, 17)])
        a = rnd.choice(ALPHAS) if rnd.random() < 0.45 else "%.*f" % (rnd.randrange(1, 7), rnd.random())
        kind = SP.TRANSLUCENT_KINDS[i % 4]
        if i % 11 == 3:
            # channels that are all 0 or 1 (ints): still an RGBA colour, a near-black - not HSLA fractions
            fg = tuple(rnd.choice([0, 1]) for _ in range(3))
            kind = ["rgba_tuple", "rgba_list", "rgba", "rgba_tuple"][(i // 11) % 4]
        text = SP.spell_translucent(fg, a, kind)
        if i % 13 == 7:
            # an RGBA tuple whose channels mix ints and floats (0.0 / 1.0 / 255.0 included): one int or one value above 1 makes it
            # RGBA, and every channel then counts on the 0-255 scale, whatever the alpha - alpha exactly 1 included
            fg = tuple(rnd.choice([0, 1, 255, rnd.randrange(256)]) for _ in range(3))
            if max(fg) <= 1:
                fg = (fg[0], 200, fg[2])
            kind = "rgba_tuple"
            a = rnd.choice(["1", "1.0", "0.999", "0.5", a])
            k0 = max(range(3), key=lambda j: fg[j])
            text = tuple((fg[j] if j == k0 else float(fg[j])) for j in range(3)) + ((1 if a == "1" else float(a)),)
            rec.count("mixed_int_float_rgba_tuples")
        if i % 6 == 5:
            # other spellings the library accepts for translucent text: rgb() carrying an alpha (CSS Color 4 alias forms) and
            # the informal list; a small fixed pool so that the same string meets many backgrounds in one process
            if (i // 6) % 2:
                fg = [(0, 0, 0), (255, 255, 255), (200, 30, 30), (20, 90, 200)][(i // 12) % 4]
                a = ["0.5", "0.7", "0.25"][(i // 48) % 3]
            kind = SP.TRANSLUCENT_KINDS_X[(i // 6) % len(SP.TRANSLUCENT_KINDS_X)]
            text = SP.spell_translucent(tuple(fg), a, kind)
        if text is None:
            continue
        # background spelling; sometimes itself translucent
        bg_exact = tuple(Fraction(v) for v in bgc)
        r = rnd.random()
        bga = None
        if r < 0.03 and isinstance(text, str) and kind in ("rgba", "hsla"):
            # text and background written identically: the background is that value over white, the text that value over the background
            bk, bg, bga = kind, text, a
            bgc = fg
            bg_exact = csscolor.blend(bgc, Fraction(bga), (255, 255, 255))
            rec.count("identical_translucent_text_and_background")
        elif r < 0.12:
            bga = rnd.choice(ALPHAS[2:]) if rnd.random() < 0.5 else "%.*f" % (rnd.randrange(1, 5), rnd.random())
            bk = rnd.choice(["rgba", "rgba_tuple", "hsla"])
            bg = SP.spell_translucent(bgc, bga, bk)
            if bg is None:
                continue
            bg_exact = csscolor.blend(bgc, Fraction(bga) if bk != "hsla" else Fraction(bga), (255, 255, 255))
        else:
            bks = SP.available(bgc, ["hex6", "tuple", "rgb", "keyword", "HEX6", "list", "rgbpct", "hsl", "frac_tuple", "hsl_tuple", "str_tuple", "pct_tuple", "float_tuple", "informal3"])
            bk, bg = bks[rnd.randrange(len(bks))]
        large = rnd.random() < 0.3
        case = {"text": SP.jsonable(text), "tk": kind, "bg": SP.jsonable(bg), "bk": bk, "fg": list(fg), "alpha": a, "bgc": list(bgc), "bg_alpha": bga, "large": large}
        rec.ev()
        try:
            pair = lib.ColorPair(text, bg, large_text=large)
            trgb, brgb = pair.text.rgb, pair.bg.rgb
            valid = pair.is_valid
        except Exception as e:
            rec.violation(f"ColorPair({text!r},{bg!r}) raised {type(e).__name__}: {e}", case)
            continue
        rec.count("kind:" + kind)
        if not valid:
            rec.violation(f"ColorPair({text!r},{bg!r}) rejected a valid translucent pair: {pair.errors}", case)
            continue
        # background composite first
        if bga is not None:
            devb = max(abs(float(e) - c) for e, c in zip(bg_exact, brgb))
            rec.count("translucent_bg_judged")
            if devb > BLEND_TOL:
                rec.violation(f"background {bg!r} over white: got {brgb}, exact blend {tuple(round(float(e), 3) for e in bg_exact)}", case)
                continue
        elif tuple(brgb) != tuple(bgc):
            rec.violation(f"opaque background {bg!r} parsed as {brgb}, CSS defines {bgc}", case)
            continue
        al = Fraction(a)
        exact = csscolor.blend(fg, al, brgb)
        dev = max(abs(float(e) - c) for e, c in zip(exact, trgb))
        rec.count("composite_judged")
        rec.maxi("max_composite_dev", round(dev, 6))
        if 0 < al < 1 and tuple(brgb) != (255, 255, 255):
            rec.nontrivial((fg, a, bgc, kind, bk))
        bad = None
        if dev > BLEND_TOL:
            bad = f"exact blend over its own background is {tuple(round(float(e), 3) for e in exact)} (dev {dev:.3f} > 1.5)"
        elif al == 1 and tuple(trgb) != tuple(fg):
            bad = f"alpha 1 must give the colour itself {fg}"
        elif al == 0 and tuple(trgb) != tuple(brgb):
            bad = f"alpha 0 must give the background {brgb}"
        if bad:
            rec.violation(f"ColorPair({text!r},{bg!r}).text.rgb = {trgb}; {bad}", case)
            continue
        # label on the composite
        ratio = wcag.ratio(tuple(trgb), tuple(brgb))
        wants = {wcag.level(ratio, large)}
        for th in (3.0, 4.5, 7.0):
            if abs(ratio - th) <= wcag.RATIO_BAND * th:
                wants |= {wcag.level(th, large), wcag.level(th - 1e-6, large)}
        rec.count("label_judged")
        if pair.is_readable not in {READ[w] for w in wants}:
            rec.violation(f"ColorPair({text!r},{bg!r},large_text={large}).is_readable = {pair.is_readable!r}; composite {trgb} on {brgb} has ratio {ratio:.4f}", case)
        if i % 33 == 0:
            mode, vr = rnd.randrange(3), rnd.random() < 0.5
            case.update({"mode": mode, "vr": vr})
            try:
                colour, success = pair.make_readable(mode=mode, very_readable=vr)
            except Exception as e:
                rec.violation(f"make_readable raised {type(e).__name__}: {e}", case)
                continue
            rec.count("fix_judged")
            mn = wcag.minimum(large, vr)
            rb = PW.readback(colour)
            if rb is None or not isinstance(colour, str) or not colour.startswith("#"):
                rec.violation(f"translucent text {text!r}: make_readable returned {colour!r} (expected a hex colour)", case)
                continue
            r1 = wcag.ratio(rb, tuple(brgb))
            if success not in wcag.verdicts(r1, mn):
                rec.violation(f"translucent text {text!r} on {bg!r}: returned {colour!r} success={success}, ratio vs composite background {r1:.4f}, minimum {mn}", case)
            if wcag.verdicts(ratio, mn) == {True}:
                if tuple(rb) != tuple(trgb) or success is not True:
                    rec.violation(f"translucent text {text!r} on {bg!r} already passes as composite {trgb} but got {(colour, success)!r}", case)
            elif r1 < ratio - 1e-12:
                rec.violation(f"translucent text {text!r} on {bg!r}: contrast dropped from composite's {ratio:.4f} to {r1:.4f}", case)
        if len(rec.samples) < 3 and 0 < al < 1:
            rec.sample({"text": SP.jsonable(text), "bg": SP.jsonable(bg), "library_composite": list(trgb), "exact_blend": [round(float(e), 3) for e in exact], "is_readable": pair.is_readable})


def alias_backgrounds(rec, lib, rnd):
    """Backgrounds given as 0/1 tuples: ints are near-black channels, floats are fractions of full scale (white, red, ...),
    bools are ints. The twin that compares equal is parsed first - also indirectly, through a hex colour of the same value
    being fixed - then translucent text is composited over the other one."""
    for rep in range(24):
        bits = [rnd.choice([0, 1]) for _ in range(3)]
        if sum(bits) == 0:
            bits[rnd.randrange(3)] = 1
        ints, floats = tuple(bits), tuple(float(x) for x in bits)
        first, second = (ints, floats) if rep % 2 == 0 else (floats, ints)
        den = lambda tup: tuple(255 * int(x) for x in tup) if isinstance(tup[0], float) else tuple(int(x) for x in tup)
        text = rnd.choice(["rgba(0, 0, 0, 0.6)", "rgba(255, 255, 255, 0.5)", (200, 30, 30, 0.5), "hsla(120, 100%, 25%, 0.7)"])
        try:
            if rep % 3 == 0:
                lib.ColorPair("#777777", "#%02x%02x%02x" % den(first)).make_readable()      # parses the int tuple internally
            lib.ColorPair(text, first).make_readable(mode=rep % 3)
            pair = lib.ColorPair(text, second)
            trgb, brgb = pair.text.rgb, pair.bg.rgb
        except Exception as e:
            rec.violation(f"alias background sequence raised {type(e).__name__}: {e}", {"alias": True, "first": repr(first), "second": repr(second), "text": repr(text)})
            continue
        rec.ev()
        rec.count("alias_background_judged")
        want_bg = den(second)
        ref = csscolor.parse(text) if isinstance(text, str) else None
        fg = ref.rgb if ref else tuple(Fraction(v) for v in text[:3])
        al = ref.alpha if ref else Fraction(str(text[3]))
        exact = csscolor.blend(fg, al, want_bg)
        dev = None if trgb is None else max(abs(float(e) - c) for e, c in zip(exact, trgb))
        if tuple(brgb or ()) != want_bg or dev is None or dev > BLEND_TOL:
            rec.violation(f"after a pair on background {first!r}: ColorPair({text!r}, {second!r}) sees background {brgb} (it denotes {want_bg}) and composites "
                          f"the text to {trgb}; exact blend {[round(float(e), 2) for e in exact]}", {"alias": True, "first": repr(first), "second": repr(second), "text": repr(text)})
        rec.nontrivial(("alias", first, second, repr(text)))


def replay(case):
    if case.get("alias"):
        from cmv.lib import Lib
        lib = Lib()
        first, second, text = eval(case["first"]), eval(case["second"]), eval(case["text"])
        lib.ColorPair(text, first).make_readable()
        p = lib.ColorPair(text, second)
        print(f"after ColorPair({text!r}, {first!r}): ColorPair({text!r}, {second!r}) -> text.rgb {p.text.rgb}, bg.rgb {p.bg.rgb}")
        return True
    from cmv.lib import Lib
    lib = Lib()
    text = SP.from_json(case["text"], case["tk"])
    bg = SP.from_json(case["bg"], case["bk"])
    pair = lib.ColorPair(text, bg, large_text=case["large"])
    exact = csscolor.blend([Fraction(c) for c in case["fg"]], Fraction(case["alpha"]), pair.bg.rgb)
    dev = max(abs(float(e) - c) for e, c in zip(exact, pair.text.rgb))
    print(f"ColorPair({text!r},{bg!r}): text.rgb {pair.text.rgb}, bg.rgb {pair.bg.rgb}, exact blend {[round(float(e), 3) for e in exact]}, dev {dev:.4f}, is_readable {pair.is_readable}")
    if "mode" in case:
        print("make_readable ->", pair.make_readable(mode=case["mode"], very_readable=case["vr"]))
    return dev <= BLEND_TOL
