"""C08 - CLI: what cm-colors reports is what it wrote, and every rule is
accounted for."""
import os
import shutil
import tempfile

import tinycss2

from cmv import clirun
from cmv.gen import colors as G, stylesheets as SS
from cmv.oracles import wcag, csscolor, cssmodel

ID = "C08"
LEVEL = "exploration"
ORACLES = ("wcag", "csscolor", "cssmodel")
RULE = ("generated stylesheets (1-25 uniquely-selected rules; with/without background-color; colours in hex/rgb()/hsl()/keyword spellings; invalid/inherit "
        "values; custom properties in :root/html (names in mixed case, with case twins, beyond ASCII): single-use, chained, with fallback, undefined with/without fallback, shared by rules on the same and on "
        "different backgrounds; !important; repeated and upper-case declarations; colour declared directly in :root/html; nesting in @media/@supports to "
        "depth 4 with colour-less siblings (rules, comments, at-rules) inside the blocks; selector lists of 150+ characters; unrelated at-rules and comments) x --mode {0,1,2} x --premium x --default-bg {absent, keyword, hex, rgb()}; each sheet mixes readable, "
        "fixable and hard pairs. Directory runs also hold entries the tool cannot process (non-UTF-8 bytes, a directory named *.css) among the good sheets. "
        "Run through the real command (in-process with a recording ColorPair, plus real subprocess runs). Oracle (cssmodel + "
        "csscolor + wcag + the Python API): P1 carded rule's effective colour in the written file == card's after colour; P2 == API result with success; "
        "P3 ratio >= target; P4 uncarded+unlisted rules meet the target and their number is the 'already readable' counter; P5 the three counters sum to "
        "the number of rules with a text colour, cards/list/counters agree; P6 listed rules' declarations unchanged. Non-trivial = sheet with >= 1 card; "
        "distinct = distinct sheet text x settings.")
ASSUMPTIONS = ["tinycss2 tokenizer/parser (dependency) as the reading of the stylesheet; csscolor/wcag oracles",
               "selectors are generated unique per sheet so cards and list lines identify rules",
               "rules inside at-rules other than @media/@supports are not 'rules nested in @media/@supports' and are not counted"]
MUST_OBSERVE = {"any": ["sheets_judged", "cards_judged", "p1_checked", "p2_checked", "p4_rules_checked", "p5_checked", "listed_rules_checked", "subprocess_runs", "dir_runs"]}
SIZES = {"quick": dict(inproc=20, sub=2, dirs=6), "thorough": dict(inproc=400, sub=40, dirs=120)}
SHARD_TIMEOUT = {"quick": 900, "thorough": 7200}
DEFAULT_BGS = [None, None, "white", "black", "#eeeeee", "rgb(20, 20, 20)", "#fafafa", "navy"]

K_SHARED = "custom-property-shared-across-backgrounds"
K_FALLBACK = "undefined-var-fallback-literal-not-written"
K_ERRNODE = "error-node-in-reserialised-rule"


def shards(tier, seed):
    z = SIZES[tier]
    out = [{"kind": "inproc", "seed": seed, "idx": i, "n": z["inproc"]} for i in range(14)]
    out += [{"kind": "sub", "seed": seed, "idx": i, "n": z["sub"]} for i in range(2)]
    out += [{"kind": "dir", "seed": seed, "idx": i, "n": z["dirs"]} for i in range(4)]
    return out


def settings(rnd):
    return {"mode": rnd.randrange(3), "premium": rnd.random() < 0.4, "default_bg": rnd.choice(DEFAULT_BGS)}


def cli_args(fname, st):
    a = [fname, "--mode", str(st["mode"])]
    if st["premium"]:
        a.append("--premium")
    if st["default_bg"] is not None:
        a += ["--default-bg", st["default_bg"]]
    return a


def read_colour(s):
    try:
        p = csscolor.parse(s)
    except csscolor.NotCSS:
        return None
    if p.alpha != 1:
        return None
    return tuple(max(x) for x in csscolor.accept_sets(p.rgb))


_RGB_ALPHA = __import__("re").compile(r"^rgba?\(\s*(\d+)[\s,]+(\d+)[\s,]+(\d+)\s*[,/]\s*([0-9.]+)\s*\)$", __import__("re").I)


def effective_text(text, bg_rgb):
    """-> (rgb or None, translucent?) : the text colour as it is seen over the rule's background."""
    if text is None:
        return None, False
    try:
        p = csscolor.parse(text)
        fg, alpha = p.rgb, p.alpha
    except csscolor.NotCSS:
        m = _RGB_ALPHA.match(text.strip())   # rgb(r, g, b, a) / rgb(r g b / a): alpha-carrying rgb() forms
        if not m:
            return None, False
        from fractions import Fraction
        fg, alpha = tuple(Fraction(int(m.group(i))) for i in (1, 2, 3)), Fraction(m.group(4))
        if any(v > 255 for v in fg) or alpha > 1:
            return None, False
    if alpha == 1:
        return tuple(max(x) for x in csscolor.accept_sets(fg)), False
    if bg_rgb is None:
        return None, True
    return tuple(int(float(c) + 0.5) for c in csscolor.blend(fg, alpha, bg_rgb)), True


TRANSLUCENT_BAND = 0.05   # a composite may legitimately be off by 1.5 units per channel: verdicts within 5% of the target are not judged


class Model:
    """Reference reading of the input sheet."""

    def __init__(self, css, default_bg):
        self.rules = [r for r in cssmodel.rules(css) if r.last("color") is not None]
        self.all_rules = cssmodel.rules(css)
        self.vars = cssmodel.variables(css)
        self.default_bg = default_bg if default_bg is not None else "white"
        self.by_sel = {}
        for r in self.rules:
            self.by_sel.setdefault(r.selector, []).append(r)
        self.info = {}
        for r in self.rules:
            traw = r.value("color")
            braw = r.value("background-color")
            if braw is None:
                braw = self.default_bg
            tres = cssmodel.resolve(traw, self.vars)
            bres = cssmodel.resolve(braw, self.vars)
            b_rgb = read_colour(bres) if bres else None
            t_rgb, transl = effective_text(tres, b_rgb)
            self.info[r.index] = {"text_raw": traw, "bg_raw": braw, "text": tres, "bg": bres, "t_rgb": t_rgb, "b_rgb": b_rgb, "translucent": transl}

    def var_users(self):
        """var name -> list of (rule index, bg text) of rules whose colour references it (first level)."""
        out = {}
        for r in self.rules:
            for nm in cssmodel.var_names(self.info[r.index]["text_raw"]):
                out.setdefault(nm, []).append((r.index, self.info[r.index]["bg"]))
        return out


def classify(model, r, css_features):
    """Mechanism key for a failing rule, from the input alone."""
    inf = model.info[r.index]
    raw = inf["text_raw"] or ""
    names = cssmodel.var_names(raw)
    if names:
        toks = tinycss2.parse_component_value_list(raw)
        for t in toks:
            if t.type == "function" and t.lower_name == "var" and any(a.type == "literal" and a.value == "," for a in t.arguments):
                # fallback form whose variable is not defined in this file: the literal fallback is what was tuned
                if names[0] not in model.vars:
                    return K_FALLBACK
        users = model.var_users()
        for nm in names:
            bgs = {b for _, b in users.get(nm, [])}
            if len(bgs) > 1:
                return K_SHARED
    return None


def file_errnode_key(model, target):
    """Known finding (e): a rule that gets re-serialised holds an item the
    parser flags as an error -> tinycss2.serialize raises -> whole file skipped."""
    for r in model.all_rules:
        if not r.has_error_nodes:
            continue
        if r.top_level and r.selector in (":root", "html"):
            return K_ERRNODE
        if r.last("color") is not None and r.index in model.info:
            inf = model.info[r.index]
            if not cssmodel.var_names(inf["text_raw"] or "") and inf["t_rgb"] and inf["b_rgb"] and wcag.ratio(inf["t_rgb"], inf["b_rgb"]) < target:
                return K_ERRNODE
    return None


def judge(rec, lib, css, st, fname, stdout, stderr, out_css, cards, feats, case):
    """stdout: the command's stdout text, or an already parsed (per-file) summary dict."""
    target = 7.0 if st["premium"] else 4.5
    model = Model(css, st["default_bg"])
    so = stdout if isinstance(stdout, dict) else clirun.parse_stdout(stdout)
    n = len(model.rules)
    rec.count("sheets_judged")
    rec.count("rules_with_colour", n)
    if cards is None:
        cards = []
    if out_css is None:
        key = file_errnode_key(model, target) if "Error processing" in stderr else None
        rec.violation(f"no {fname[:-4]}_cm.css was written for a valid stylesheet ({n} rules with a text colour; stderr: {stderr.strip()[:160]!r})", case, key=key)
        return
    # ---- P5 conservation / agreement of counters, cards, list
    rec.count("p5_checked")
    if so["accessible"] + so["tuned"] + so["failed"] != n:
        dup = [s for s, v in model.by_sel.items() if len(v) > 1]
        upper = [r.selector for r in model.rules if r.last("color").name != "color"]
        rec.violation(f"counters do not account for every rule: {so['accessible']} readable + {so['tuned']} adjusted + {so['failed']} attention != {n} rules "
                      f"with a text colour (rules with non-lower-case 'color': {upper[:3]})", case)
        return
    if len(cards) != so["tuned"] or so["listed_count"] != so["failed"] or len(so["listed"]) != so["failed"]:
        rec.violation(f"summary disagrees with itself: {so['tuned']} adjusted vs {len(cards)} report cards; {so['failed']} attention vs {len(so['listed'])} listed", case)
        return
    carded = {}
    ncards = {}
    for c in cards:
        rs = model.by_sel.get(c["selector"])
        ncards[c["selector"]] = ncards.get(c["selector"], 0) + 1
        # a selector may occur several times only as exact repetitions of one rule (same declarations): then all of them share one fate
        dup_ok = rs and len(rs) > 1 and all(cssmodel.canon_decls(r.node.content) == cssmodel.canon_decls(rs[0].node.content) for r in rs)
        if not rs or not c["ok"] or (c["selector"] in carded and not dup_ok) or ncards[c["selector"]] > len(rs):
            rec.violation(f"report card for selector {c['selector']!r} does not identify exactly one rule of the input", case)
            return
        carded[c["selector"]] = c
    for sel, k in ncards.items():
        if k != len(model.by_sel[sel]):
            rec.violation(f"selector {sel!r} occurs in {len(model.by_sel[sel])} identical rules with a text colour but has {k} report card(s): every adjusted rule "
                          f"is reported", case)
            return
    listed = set()
    nlisted = {}
    for f, s in so["listed"]:
        nlisted[s] = nlisted.get(s, 0) + 1
        if s in model.by_sel and s not in carded and f == fname and nlisted[s] <= len(model.by_sel[s]) and len(model.by_sel[s]) > 1:
            listed.add(s)
            continue
        if s not in model.by_sel or s in carded or s in listed or f != fname:
            rec.violation(f"'Could not tune' lists {f!r} -> {s!r}, which is not exactly one un-adjusted rule of {fname}", case)
            return
        listed.add(s)
    out_all = cssmodel.rules(out_css)
    out_rules = {}
    for r in out_all:
        out_rules.setdefault(r.selector, []).append(r)
    out_vars = cssmodel.variables(out_css)
    same_shape = len(out_all) == len(model.all_rules) and all(a.selector == b.selector for a, b in zip(out_all, model.all_rules))

    def body(rule):
        """declarations of a rule for 'left unchanged' comparisons; custom-property definitions of top-level
        :root/html rules are exempt (they are legitimately rewritten on behalf of other rules)."""
        d = cssmodel.canon_decls(rule.node.content)
        if rule.top_level and rule.selector in (":root", "html"):
            d = [x for x in d if not (x[0] == "decl" and x[1].startswith("--"))]
        return d
    # ---- per rule
    n_acc = 0
    for r in model.rules:
        inf = model.info[r.index]
        rcase = dict(case, selector=r.selector, rule_features=feats.get(r.selector, []))
        orule = out_all[r.index] if same_shape else (out_rules.get(r.selector) or [None])[0]
        if orule is None:
            rec.violation(f"rule {r.selector!r} is missing from the written file", rcase)
            continue
        if r.selector in carded:
            c = carded[r.selector]
            rec.count("cards_judged")
            key = classify(model, r, feats)
            after = read_colour(c["after"])
            bg = read_colour(c["bg"])
            if after is None or bg is None or c["bg"] != c["bg2"] or c["code_after"] != c["after"].strip():
                rec.violation(f"card for {r.selector!r} is not self-consistent / not readable CSS: {c}", rcase)
                continue
            # card's background is the rule's background
            if inf["b_rgb"] is None or bg != inf["b_rgb"]:
                rec.violation(f"card for {r.selector!r} shows background {c['bg']!r} but the rule's background is {inf['bg']!r}", rcase)
                continue
            # P3
            rec.count("p3_checked")
            ratio = wcag.ratio(after, bg)
            if True not in wcag.verdicts(ratio, target):
                rec.violation(f"rule {r.selector!r} reported adjusted to {c['after']!r} on {c['bg']!r}: ratio {ratio:.4f} < target {target}", rcase)
            # P2
            rec.count("p2_checked")
            try:
                api = lib.ColorPair(c["before"], c["bg"]).make_readable(mode=st["mode"], very_readable=st["premium"])
            except Exception as e:
                api = ("EXC", repr(e))
            if api != (c["after"], True):
                rec.violation(f"rule {r.selector!r}: card says {c['before']!r} -> {c['after']!r} on {c['bg']!r}, but the API returns {api!r} for mode={st['mode']} "
                              f"very_readable={st['premium']}", rcase)
            before, _tr = effective_text(c["before"], bg)
            close = before is not None and inf["t_rgb"] is not None and all(abs(x - y) <= (2 if inf["translucent"] else 0) for x, y in zip(before, inf["t_rgb"]))
            if before is None or (inf["t_rgb"] is not None and not close):
                # legitimate only for a shared custom property already adjusted by an earlier rule
                earlier = {read_colour(cc["after"]) for cc in cards}
                if not (cssmodel.var_names(inf["text_raw"] or "") and before in earlier):
                    rec.violation(f"card for {r.selector!r} shows before-colour {c['before']!r} but the rule's text colour is {inf['text']!r}", rcase)
            # P1
            rec.count("p1_checked")
            eff = cssmodel.resolve(orule.value("color"), out_vars)
            eff_rgb = read_colour(eff) if eff else None
            if eff_rgb != after:
                rec.violation(f"rule {r.selector!r} is reported adjusted to {c['after']!r} but the written file gives it {orule.value('color')!r}"
                              f"{'' if eff == orule.value('color') else ' = ' + repr(eff)} (features {feats.get(r.selector, [])})", rcase, key=key)
            elif wcag.ratio(eff_rgb, bg) < target * (1 - 1e-9):
                rec.violation(f"rule {r.selector!r}: written colour {eff!r} has ratio {wcag.ratio(eff_rgb, bg):.4f} < {target}", rcase, key=key)
        elif r.selector in listed:
            rec.count("listed_rules_checked")
            if body(r) != body(orule):
                rec.violation(f"rule {r.selector!r} needs attention but its declarations were changed in the written file", rcase)
        else:
            n_acc += 1
            rec.count("p4_rules_checked")
            key = classify(model, r, feats)
            # effective colour in the *output* must meet the target too when a shared property was adjusted afterwards
            if inf["t_rgb"] is None or inf["b_rgb"] is None:
                rec.violation(f"rule {r.selector!r} is counted as already readable but its colours are {inf['text']!r} on {inf['bg']!r} (not readable CSS colours)", rcase)
                continue
            ratio = wcag.ratio(inf["t_rgb"], inf["b_rgb"])
            if inf["translucent"] and abs(ratio / target - 1) <= TRANSLUCENT_BAND:
                rec.count("translucent_in_band_not_judged")
            elif True not in wcag.verdicts(ratio, target):
                # a shared custom property adjusted by an earlier rule may legitimately have made it readable
                eff = cssmodel.resolve(orule.value("color"), out_vars)
                eff_rgb = read_colour(eff) if eff else None
                if not (cssmodel.var_names(inf["text_raw"] or "") and eff_rgb and wcag.ratio(eff_rgb, inf["b_rgb"]) >= target):
                    rec.violation(f"rule {r.selector!r} ({inf['text']!r} on {inf['bg']!r}) is counted as already readable but its ratio is {ratio:.4f} < {target}", rcase, key=key)
            if body(r) != body(orule):
                rec.violation(f"rule {r.selector!r} is already readable but its declarations were changed in the written file", rcase)
    if n_acc != so["accessible"]:
        rec.violation(f"'already readable' counter is {so['accessible']} but {n_acc} rules are neither adjusted nor listed", case)


def dir_runs(shard, rec, lib, scratch):
    """Directory invocations: several sheets whose rules reference custom properties defined only in *another* file
    (as text colour and as background, with and without fallback). A table or counter that leaks between files
    changes a rule's classification; every file is judged against its own reading."""
    rnd = G.rng("c08dir", shard["seed"], shard["idx"])
    for si in range(shard["n"]):
        st = settings(rnd)
        dbg = (255, 255, 255) if st["default_bg"] is None else csscolor.read(st["default_bg"])
        d = os.path.join(scratch, f"d{si}")
        shutil.rmtree(d, ignore_errors=True)
        os.makedirs(os.path.join(d, "sub"))
        names = ["a.css", os.path.join("sub", "b.css"), "c.css"][:rnd.choice([2, 3])]
        if si % 4 == 3:
            # stylesheets whose name, or whose directory's name, starts with a dot are stylesheets like any other
            names = [".print.css", os.path.join(".storybook", "preview.css"), "c.css"][:rnd.choice([2, 3])]
            os.makedirs(os.path.join(d, ".storybook"))
            rec.count("dir_runs_with_dot_names")
        sheets = {}
        for k, rel in enumerate(names):
            sh = SS.make_sheet(rnd, premium=st["premium"], default_bg=dbg, rich=False, n_rules=rnd.choice([2, 4, 6]), tag=f"d{k}r",
                               allow={"var", "var-chain", "var-fallback", "repeat", "invalid"})
            other = (k + 1) % len(names)
            text = sh.text
            if k % 2 == 0:
                text = f":root {{ --only{k}: #767676; --bg{k}: #101010; --shared: rgb({90 + 9 * k}, {90 + 9 * k}, {90 + 9 * k}); }}\n" + text
            text += (f"\n.x{k}a {{ color: var(--only{other}); }}\n.x{k}b {{ color: #8a8a8a; background-color: var(--bg{other}); }}\n"
                     f".x{k}c {{ color: var(--only{other}, #777777); background-color: #ffffff }}\n.x{k}d {{ color: var(--shared); }}\n")
            sheets[rel] = (text, sh.features)
            with open(os.path.join(d, rel), "w", encoding="utf-8", newline="") as f:
                f.write(text)
        if si % 2 == 1:
            # a byte-identical copy of one sheet under another name: its rules are counted, reported and written like anyone's
            src_rel = names[0]
            copy_rel = os.path.join("sub", "copy-of-a.css")
            sheets[copy_rel] = sheets[src_rel]
            with open(os.path.join(d, copy_rel), "w", encoding="utf-8", newline="") as f:
                f.write(sheets[src_rel][0])
            rec.count("identical_copies")
        if si % 3:
            # entries the tool cannot process, visited among / after the good ones: they are reported and skipped, and what is
            # reported about the good files still holds of the files written for them
            for frel in ([os.path.join("sub", "zz-legacy.css"), "zz-old.css"] if si % 3 == 1 else [os.path.join("sub", "pkg.css"), os.path.join("sub", "deeper", "x.css")]):
                p = os.path.join(d, frel)
                os.makedirs(os.path.dirname(p), exist_ok=True)
                if frel.endswith("pkg.css"):
                    os.makedirs(p, exist_ok=True)
                else:
                    with open(p, "wb") as f:
                        f.write(b"/* caf\xe9 \xff\xfe */ .old { color: #777 }\n")
            rec.count("dir_runs_with_unprocessable_entries")
        rc, out, err = clirun.run(cli_args(".", st), d, inprocess=(si % 2 == 0))
        rec.ev()
        rec.count("dir_runs")
        case = {"dir": {rel: t for rel, (t, _) in sheets.items()}, "settings": st}
        if rc != 0:
            rec.violation(f"cm-colors exited with {rc!r} on a directory of valid stylesheets; stderr {err[-300:]!r}", case)
            continue
        so = clirun.parse_stdout(out)
        cards = clirun.parse_report(os.path.join(d, "cm_colors_report.html")) or []
        tot_acc = 0
        ok = True
        for rel, (text, feats) in sheets.items():
            base = os.path.basename(rel)
            mine = [c for c in cards if c["file"] == base]
            listed = [(f, sel) for f, sel in so["listed"] if f == base]
            model = Model(text, st["default_bg"])
            acc_i = len(model.rules) - len(mine) - len(listed)
            tot_acc += acc_i
            op = os.path.join(d, rel[:-4] + "_cm.css")
            out_css = open(op, encoding="utf-8").read() if os.path.exists(op) else None
            per_file = {"accessible": acc_i, "tuned": len(mine), "failed": len(listed), "listed_count": len(listed), "listed": listed}
            nv = sum(rec.nviol.values())
            judge(rec, lib, text, st, base, per_file, err, out_css, mine, feats, dict(case, file=rel))
            ok = ok and sum(rec.nviol.values()) == nv
        if ok and (tot_acc != so["accessible"] or len(cards) != so["tuned"] or len(so["listed"]) != so["failed"]):
            rec.violation(f"directory run summary ({so['accessible']} readable, {so['tuned']} adjusted, {so['failed']} attention) does not add up over the files "
                          f"({tot_acc} readable by per-file reading, {len(cards)} cards, {len(so['listed'])} listed)", case)
        if cards:
            rec.nontrivial((repr(sorted(case["dir"].items())), repr(st)))
        shutil.rmtree(d, ignore_errors=True)


def work(shard, rec):
    from cmv.lib import Lib
    lib = Lib()
    scratch = os.path.join(os.environ.get("CMV_SCRATCH", tempfile.gettempdir()), f"c08-{shard['kind']}-{shard['idx']}")
    os.makedirs(scratch, exist_ok=True)
    if shard["kind"] == "dir":
        return dir_runs(shard, rec, lib, scratch)
    rnd = G.rng("c08", shard["kind"], shard["seed"], shard["idx"])
    inproc = shard["kind"] == "inproc"
    mainmod = lib.mod("main")
    trace = []
    orig_cp = getattr(mainmod, "ColorPair", None)
    if inproc and orig_cp is not None:
        class RecordingPair(orig_cp):
            def __init__(self, *a, **k):
                super().__init__(*a, **k)
                trace.append(("new", a[:2]))

            def make_readable(self, *a, **k):
                out = super().make_readable(*a, **k)
                trace.append(("fix", out))
                return out
        mainmod.ColorPair = RecordingPair
    elif inproc:
        rec.count("skipped:trace (cli.main.ColorPair absent)")
    try:
        for si in range(shard["n"]):
            st = settings(rnd)
            dbg = (255, 255, 255) if st["default_bg"] is None else csscolor.read(st["default_bg"])
            sheet = SS.make_sheet(rnd, premium=st["premium"], default_bg=dbg, rich=False)
            d = os.path.join(scratch, f"s{si}")
            shutil.rmtree(d, ignore_errors=True)
            os.makedirs(d)
            fname = "sheet.css"
            with open(os.path.join(d, fname), "w", encoding="utf-8", newline="") as f:
                f.write(sheet.text)
            del trace[:]
            rc, out, err = clirun.run(cli_args(fname, st), d, inprocess=inproc)
            rec.ev()
            rec.count("subprocess_runs" if not inproc else "inprocess_runs")
            case = {"css": sheet.text, "settings": st, "features": sheet.features}
            if rc != 0:
                rec.violation(f"cm-colors exited with {rc!r} on a valid stylesheet; stderr {err[-300:]!r}", case)
                shutil.rmtree(d, ignore_errors=True)
                continue
            op = os.path.join(d, "sheet_cm.css")
            out_css = open(op, encoding="utf-8").read() if os.path.exists(op) else None
            cards = clirun.parse_report(os.path.join(d, "cm_colors_report.html"))
            nv = sum(rec.nviol.values())
            judge(rec, lib, sheet.text, st, fname, out, err, out_css, cards, sheet.features, case)
            for sel, fs in sheet.features.items():
                for ft in fs:
                    rec.count("feature:" + ft)
            if inproc:
                rec.count("trace_constructions", sum(1 for t in trace if t[0] == "new"))
                rec.count("trace_fix_calls", sum(1 for t in trace if t[0] == "fix"))
            if cards:
                rec.nontrivial((sheet.text, repr(st)))
            if cards and len(rec.samples) < 2 and sum(rec.nviol.values()) == nv:
                so = clirun.parse_stdout(out)
                rec.sample({"settings": st, "rules_with_colour": len(Model(sheet.text, st["default_bg"]).rules),
                            "stdout_counters": {k: so[k] for k in ("accessible", "tuned", "failed")},
                            "first_card": {k: cards[0][k] for k in ("selector", "bg", "before", "after")}, "sheet_head": sheet.text[:300]})
            shutil.rmtree(d, ignore_errors=True)
    finally:
        if inproc and orig_cp is not None:
            mainmod.ColorPair = orig_cp


def replay(case):
    from cmv.lib import Lib
    from cmv.rec import Rec
    lib = Lib()
    d = tempfile.mkdtemp(prefix="c08-replay-")
    st = case["settings"]
    if "dir" in case:
        for rel, text in case["dir"].items():
            os.makedirs(os.path.dirname(os.path.join(d, rel)), exist_ok=True)
            with open(os.path.join(d, rel), "w", encoding="utf-8", newline="") as f:
                f.write(text)
        rc, out, err = clirun.run(cli_args(".", st), d, inprocess=False)
        print("settings:", st, "\n---- stdout\n" + out + "\n---- stderr\n" + err[-800:])
        for rel, text in case["dir"].items():
            op = os.path.join(d, rel[:-4] + "_cm.css")
            print(f"---- {rel}\n{text}\n---- output\n" + (open(op, encoding='utf-8').read() if os.path.exists(op) else "<not written>"))
        print("cards:", clirun.parse_report(os.path.join(d, "cm_colors_report.html")))
        shutil.rmtree(d, ignore_errors=True)
        return True
    with open(os.path.join(d, "sheet.css"), "w", encoding="utf-8", newline="") as f:
        f.write(case["css"])
    rc, out, err = clirun.run(cli_args("sheet.css", st), d, inprocess=False)
    print("settings:", st)
    print("---- input sheet.css\n" + case["css"])
    print("---- stdout\n" + out)
    if err.strip():
        print("---- stderr\n" + err[-1500:])
    op = os.path.join(d, "sheet_cm.css")
    out_css = open(op, encoding="utf-8").read() if os.path.exists(op) else None
    print("---- sheet_cm.css\n" + (out_css if out_css is not None else "<not written>"))
    cards = clirun.parse_report(os.path.join(d, "cm_colors_report.html"))
    print("---- cards:", cards)
    rec = Rec()
    judge(rec, lib, case["css"], st, "sheet.css", out, err, out_css, cards, case.get("features", {}), {})
    for v in rec.viol:
        print("VIOLATED:", v["what"], "| key:", v["key"])
    shutil.rmtree(d, ignore_errors=True)
    if not rec.viol:
        print("holds")
    return not rec.viol
