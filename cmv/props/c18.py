"""C18 - CLI batches: per-file isolation, bad files skipped, outputs never
re-consumed."""
import os
import shutil
import tempfile

from cmv import clirun
from cmv.gen import colors as G, stylesheets as SS
from cmv.props import c08

ID = "C18"
LEVEL = "fault_enumeration"
ORACLES = ("csscolor", "cssmodel")
RULE = ("fault enumeration: directory trees of 2-8 generated stylesheets in 1-3 directory levels (custom properties of the same name with different values in "
        "different files; rules referencing - directly, through a chain, or with a fallback - a property defined only in another file) x each fault kind "
        "{non-UTF-8 bytes, directory named *.css, dangling symlink *.css, sheet that cannot be re-serialised, empty file, pre-existing orphan *_cm.css, "
        "pre-existing stale output, output path blocked by a directory} x each placement {sorts first, middle, last} x {root, sub-directory}. Half of the trees hold a symbolic-link twin of one sheet (an input of its own). All runs are real subprocesses. Oracle: every "
        "stylesheet's directory-run output is byte-identical to the output of running the command on that file alone in a pristine copy; a second "
        "directory run reproduces the same set and bytes and creates no *_cm_cm.css; orphan *_cm.css files are untouched; each undecodable/unopenable file "
        "is named on stderr and the exit status is 0. Non-trivial = tree with a fault and >= 2 stylesheets; distinct = (tree, fault kind, placement).")
ASSUMPTIONS = ["the command run on one file alone in a pristine copy of the tree is the reference for that file's output (differential)",
               "unreadable-by-permission files are not generated: the sandbox runs as root, which ignores mode bits"]
EXHAUSTIVE = {"quick": ["every fault kind (9) x placement (6) combination at least once"], "thorough": ["every fault kind (9) x placement (6) combination, >= 8 trees each"]}
MUST_OBSERVE = {"any": ["trees_judged", "dir_vs_single_compared", "reruns_compared", "faults_injected", "fault_reported_on_stderr"]}
SIZES = {"quick": 4, "thorough": 32}
SHARD_TIMEOUT = {"quick": 900, "thorough": 7200}
FAULTS = ["non-utf8", "dir-named-css", "dangling-symlink", "unserialisable", "empty", "orphan-cm", "stale-output", "blocked-output", "none"]
PLACEMENTS = [("first", "root"), ("middle", "root"), ("last", "root"), ("first", "sub"), ("middle", "sub"), ("last", "sub")]


def shards(tier, seed):
    combos = [(f, p) for f in FAULTS for p in PLACEMENTS]
    out = []
    for i in range(16):
        out.append({"kind": "trees", "seed": seed, "idx": i, "n": SIZES[tier], "combos": [list(c) for c in combos[i::16]] * 10})
    return out


def build_tree(rnd, root, fault, placement, st):
    """-> (sheets: rel -> text, faulty: [rel], orphans: [rel])"""
    os.makedirs(root, exist_ok=True)
    n = rnd.choice([2, 3, 4, 5, 6, 8])
    levels = [".", "sub", os.path.join("sub", "deeper"), "other", ".config"]
    sheets = {}
    dbg = (255, 255, 255)
    shared_var = "--shared"
    names = []
    for k in range(n):
        lvl = levels[rnd.randrange(min(len(levels), 1 + k))]
        c0 = 'bmnpqrst'[k]
        nm = [f"{c0}{k}.css", f"{c0}{k}.min.css", f"{c0} {k}.css", f"{c0}{k}.v2.final.css", f"{c0}{k}_cms.css", f"{c0}{k}.css.bundle.css",
              f"{c0}{k}_cmss.css", f"{c0}{k}.css.css", f".{c0}{k}.css"][(k + rnd.randrange(9)) % 9 if k else 0]
        rel = os.path.normpath(os.path.join(lvl, nm))
        sheet = SS.make_sheet(rnd, premium=st["premium"], default_bg=dbg, rich=False, n_rules=rnd.choice([2, 3, 5, 8]), tag=f"t{k}r",
                              allow={"var", "var-chain", "var-fallback", "var-shared", "invalid", "repeat"})
        text = sheet.text
        # cross-file references: same property name, different values; references to a property defined only elsewhere
        # every file has its own page background (light in one, dark in the next); rules without a background of their own
        # are judged against it when the run is given --default-bg "var(--page-bg, white)"
        text = f":root {{ --page-bg: {['#ffffff', '#101418', '#fdf6e3', '#20242c'][k % 4]}; }}\n.pg{k} {{ color: {['#7c7c7c', '#6f7a86', '#8a8a8a', '#767c88'][k % 4]}; }}\n" + text
        grey = 100 + 7 * k
        if k % 2 == 0:
            text = f":root {{ {shared_var}: rgb({grey}, {grey}, {grey}); --only-in-{k}: #7a7a7a; }}\n" + text
        text += f"\n.x{k}a {{ color: var({shared_var}); }}\n.x{k}b {{ color: var(--only-in-{(k + 1) % n}, #6f7780); background-color: #ffffff }}\n"
        text += f".x{k}c {{ color: var(--chain{k}); }}\n:root {{ --chain{k}: var(--only-in-{(k + 2) % n}); }}\n"
        # a direct colour on a background that only another file defines: alone the pair is unresolvable and stays as it is
        text += f".x{k}e {{ color: #777777; background-color: var(--surface-{(k + 1) % n}) }}\n.x{k}f {{ color: #8c8c8c; background-color: var(--surface-any, var(--surface-{k})) }}\n"
        # the same failing pairs in every file, each file in its own notation (an answer remembered per colour pair
        # instead of per declaration carries one file's notation into another's output)
        tn = ["#777777", "rgb(119, 119, 119)", "hsl(0, 0%, 46.67%)", "#777", "RGB(119,119,119)", "#777777"][k % 6]
        bn = ["#ffffff", "white", "rgb(255, 255, 255)", "#fff", "hsl(0, 0%, 100%)", "#FFFFFF"][(k + 1) % 6]
        text = f".same{k}a {{ color: {tn}; background-color: {bn} }}\n.same{k}b {{ color: {tn}; }}\n" + text   # first in the file
        sheets[rel] = text
        names.append(rel)
    # a stylesheet with nothing to adjust, written in minified form (no ';' after the last declaration of its :root block):
    # its output must not depend on whether *other* files had something adjusted
    quiet = os.path.normpath(os.path.join(rnd.choice([".", "sub"]), rnd.choice(["k9quiet.css", "a1quiet.css", "zquiet.min.css"])))
    sheets[quiet] = ":root{--q-ink:#111111;--q-paper:#ffffff}\nhtml{--q2:#000}\n.q1{color:#111111;background-color:#ffffff}\n.q2{color:var(--q-ink);background-color:var(--q-paper)}\n"
    # the same stylesheet reachable under a second path (a symbolic link in another directory): each path is an input of its
    # own, with its own sibling output, alone and in a directory run alike
    links = {}
    if rnd.random() < 0.5:
        lrel = os.path.normpath(os.path.join(rnd.choice(["themes", ".", "sub"]), rnd.choice(["a0light.css", "m5twin.css", "zz-alias.css"])))
        if lrel not in sheets:
            links[lrel] = names[rnd.randrange(len(names))]
    faulty, orphans = [], []
    if fault != "none":
        where, lvl = placement
        base = {"first": "a0fault", "middle": "n4fault", "last": "zzfault"}[where]
        d = "." if lvl == "root" else "sub"
        rel = os.path.normpath(os.path.join(d, base + ".css"))
        if fault == "orphan-cm":
            rel = os.path.normpath(os.path.join(d, base + "_cm.css"))
            orphans.append(rel)
            sheets_extra = {rel: ".orphan { color: #777; }\n"}
        elif fault == "stale-output":
            # an old output next to one of the real stylesheets
            victim = names[0]
            rel = victim[:-4] + "_cm.css"
            sheets_extra = {rel: ".stale { color: #123456 }\n"}
        else:
            sheets_extra = {}
            faulty.append(rel)
    else:
        rel = None
        sheets_extra = {}
    # a bystander whose extension is not lower-case: whether or not the tool regards it as a stylesheet, a repeated run must
    # not keep producing new files from it
    sheets_extra = dict(sheets_extra)
    sheets_extra["PRINT.CSS"] = ".up { color: #777777; background-color: #ffffff }\n"
    for r, text in list(sheets.items()) + list(sheets_extra.items()):
        p = os.path.join(root, r)
        os.makedirs(os.path.dirname(p), exist_ok=True)
        with open(p, "w", encoding="utf-8", newline="") as f:
            f.write(text)
    for lrel, target in links.items():
        p = os.path.join(root, lrel)
        os.makedirs(os.path.dirname(p), exist_ok=True)
        os.symlink(os.path.relpath(os.path.join(root, target), os.path.dirname(p)), p)
        sheets[lrel] = sheets[target]
    if fault == "non-utf8":
        p = os.path.join(root, rel)
        os.makedirs(os.path.dirname(p), exist_ok=True)
        with open(p, "wb") as f:
            f.write(b".a { color: #777; } /* \xff\xfe\x80 */ .b { color: #888 }\n")
    elif fault == "dir-named-css":
        os.makedirs(os.path.join(root, rel), exist_ok=True)
        with open(os.path.join(root, rel, "inner.txt"), "w") as f:
            f.write("x")
    elif fault == "dangling-symlink":
        p = os.path.join(root, rel)
        os.makedirs(os.path.dirname(p), exist_ok=True)
        os.symlink("does-not-exist.css", p)
    elif fault == "unserialisable":
        p = os.path.join(root, rel)
        os.makedirs(os.path.dirname(p), exist_ok=True)
        with open(p, "w") as f:
            # a top-level :root rule is always re-serialised; the error node in it makes tinycss2.serialize raise
            f.write(":root { --v: #123456; *zoom: 1 }\n.h { color: #777; background-color: #fff; *zoom: 1 }\n.ok { color: #000 }\n")
    elif fault == "blocked-output":
        # a valid stylesheet that defines the properties other files reference, but whose output cannot be written
        # (a directory sits at its output path): it fails *after* it has been read and analysed
        p = os.path.join(root, rel)
        os.makedirs(os.path.dirname(p), exist_ok=True)
        defs = "; ".join([f"--only-in-{j}: #{(30 + 20 * j) % 256:02x}{(40 + 10 * j) % 256:02x}50" for j in range(10)] + ["--shared: #0a0a0a", "--surface-any: #fefefe"]
                         + [f"--surface-{j}: #ffffff" for j in range(10)])
        with open(p, "w") as f:
            f.write(f":root {{ {defs} }}\n.blk {{ color: #777777; background-color: #ffffff }}\n")
        os.makedirs(os.path.join(root, rel[:-4] + "_cm.css"), exist_ok=True)
        with open(os.path.join(root, rel[:-4] + "_cm.css", "keep.txt"), "w") as f:
            f.write("x")
    elif fault == "empty":
        p = os.path.join(root, rel)
        os.makedirs(os.path.dirname(p), exist_ok=True)
        open(p, "w").close()
        faulty.remove(rel)
        sheets[rel] = ""
    return sheets, faulty, orphans, links


def outputs(root):
    out = {}
    for dp, dns, fns in os.walk(root):
        for n in fns:
            if n.endswith("_cm.css"):
                p = os.path.join(dp, n)
                with open(p, "rb") as f:
                    out[os.path.relpath(p, root)] = f.read()
    return out


def work(shard, rec):
    scratch = os.path.join(os.environ.get("CMV_SCRATCH", tempfile.gettempdir()), f"c18-{shard['idx']}")
    os.makedirs(scratch, exist_ok=True)
    rnd = G.rng("c18", shard["seed"], shard["idx"])
    for ti in range(shard["n"]):
        fault, placement = shard["combos"][ti % len(shard["combos"])]
        st = {"mode": rnd.randrange(3), "premium": rnd.random() < 0.3, "default_bg": rnd.choice([None, None, "var(--page-bg, white)", "var(--page-bg)"])}
        pristine = os.path.join(scratch, f"p{ti}")
        shutil.rmtree(pristine, ignore_errors=True)
        sheets, faulty, orphans, links = build_tree(rnd, pristine, fault, tuple(placement), st)
        case = {"fault": fault, "placement": placement, "settings": st, "sheets": sheets, "faulty": faulty, "orphans": orphans, "links": links}
        if links:
            rec.count("trees_with_a_linked_twin")
        try:
            judge_tree(rec, scratch, ti, pristine, sheets, faulty, orphans, fault, placement, st, case, rnd)
        finally:
            for nm in (f"p{ti}", f"d{ti}", f"s{ti}"):
                shutil.rmtree(os.path.join(scratch, nm), ignore_errors=True)


def judge_tree(rec, scratch, ti, pristine, sheets, faulty, orphans, fault, placement, st, case, rnd):
    rec.ev()
    rec.count("trees_judged")
    rec.count("faults_injected" if fault != "none" else "fault_free_trees")
    rec.count("fault:" + fault)
    rec.count(f"placement:{placement[0]}:{placement[1]}")
    pre_outputs = outputs(pristine)       # orphan / stale *_cm.css present before any run
    work_dir = os.path.join(scratch, f"d{ti}")
    shutil.copytree(pristine, work_dir, symlinks=True)
    from_parent = rnd.random() < 0.3
    if from_parent:
        args, cwd = c08.cli_args(os.path.basename(work_dir), st), scratch
    else:
        args, cwd = c08.cli_args(".", st), work_dir
    rc, out, err = clirun.run(args, cwd)
    if rc != 0:
        rec.violation(f"directory run exited with status {rc} (fault {fault} at {placement}); stderr tail {err[-300:]!r}", case)
        return
    so = clirun.parse_stdout(out)
    first = outputs(work_dir)
    # faults reported, not consumed
    for rel in faulty:
        rec.count("fault_reported_on_stderr")
        if os.path.basename(rel) not in err or "Error processing" not in err:
            rec.violation(f"faulty file {rel} ({fault}) is not reported on stderr; stderr tail {err[-200:]!r}", case)
        if rel[:-4] + "_cm.css" in first:
            rec.violation(f"faulty file {rel} ({fault}) produced an output", case)
        if fault == "blocked-output" and clirun.snapshot(os.path.join(work_dir, rel[:-4] + "_cm.css")) != {"keep.txt": clirun.snapshot(os.path.join(pristine, rel[:-4] + "_cm.css"))["keep.txt"]}:
            rec.violation(f"the directory at the blocked output path {rel[:-4]}_cm.css was altered", case)
    for rel in orphans:
        if first.get(rel) != pre_outputs.get(rel):
            rec.violation(f"pre-existing {rel} was modified by a directory run (it is an output name, never an input)", case)
    bad_names = [k for k in first if k.endswith("_cm_cm.css")]
    if bad_names:
        rec.violation(f"directory run consumed an output file: created {bad_names}", case)
    # everything the run created must be a documented output: sibling <name>_cm.css of an input, or the report
    snap0, snap1 = clirun.snapshot(pristine), clirun.snapshot(work_dir)
    allowed_new = {r[:-4] + "_cm.css" for r in list(sheets) + faulty} | {"cm_colors_report.html", "PRINT_cm.CSS", "PRINT_cm.css"}
    stray = sorted(k for k in snap1 if k not in snap0 and k not in allowed_new)
    if stray:
        rec.violation(f"directory run created files that are not '<name>_cm.css' beside an input: {stray[:4]}", case)
    for rel in sheets:
        if rel[:-4] + "_cm.css" not in first:
            rec.violation(f"stylesheet {rel} produced no {rel[:-4]}_cm.css in the directory run (stderr tail {err[-160:]!r})", case)
    expected_inputs = len(sheets) + len(faulty)
    if so["files_announced"] is not None and so["files_announced"] not in (expected_inputs, expected_inputs + 1):   # +1: PRINT.CSS, if taken
        rec.violation(f"directory run announces {so['files_announced']} files but the tree holds {expected_inputs} stylesheet inputs (fault {fault})", case)
    # ---- second run over the same tree
    rc2, out2, err2 = clirun.run(args, cwd)
    second = outputs(work_dir)
    rec.count("reruns_compared")
    snap2 = clirun.snapshot(work_dir)
    so2 = clirun.parse_stdout(out2)
    if so2["files_announced"] != so["files_announced"] or {k: v for k, v in snap2.items() if k != "cm_colors_report.html"} != {k: v for k, v in snap1.items() if k != "cm_colors_report.html"}:
        newf = sorted(set(snap2) - set(snap1))
        rec.violation(f"repeating the directory run is not idempotent: it announced {so2['files_announced']} files (first run {so['files_announced']}) and created {newf[:4]}", case)
    elif rc2 != 0 or set(second) != set(first) or any(second[k] != first[k] for k in first):
        diff = sorted(set(second) ^ set(first)) or [k for k in first if second.get(k) != first[k]]
        rec.violation(f"repeating the directory run changed the outputs (status {rc2}; differing {diff[:4]})", case)
    # ---- each stylesheet alone, in a pristine copy
    for rel in sorted(sheets):
        single_dir = os.path.join(scratch, f"s{ti}")
        shutil.rmtree(single_dir, ignore_errors=True)
        shutil.copytree(pristine, single_dir, symlinks=True)
        rc1, o1, e1 = clirun.run(c08.cli_args(rel, st), single_dir)
        alone = outputs(single_dir).get(rel[:-4] + "_cm.css")
        if pre_outputs.get(rel[:-4] + "_cm.css") is not None and alone == pre_outputs.get(rel[:-4] + "_cm.css") and "Error processing" in e1:
            alone = None
        got = first.get(rel[:-4] + "_cm.css")
        if rel[:-4] + "_cm.css" in pre_outputs and "Error processing" in err and got == pre_outputs[rel[:-4] + "_cm.css"]:
            got = None
        rec.count("dir_vs_single_compared")
        if got != alone:
            what = "missing in the directory run" if got is None else ("missing when run alone" if alone is None else "differs")
            rec.violation(f"{rel}: directory-run output {what} compared with running the tool on that file alone (fault {fault} at {placement}, "
                          f"{len(sheets)} sheets)", dict(case, file=rel))
        shutil.rmtree(single_dir, ignore_errors=True)
    if fault != "none" and len(sheets) >= 2:
        rec.nontrivial((sorted(sheets.items()), fault, tuple(placement)))
    if len(rec.samples) < 2:
        rec.sample({"fault": fault, "placement": placement, "settings": st, "stylesheets": sorted(sheets), "faulty": faulty, "outputs_first_run": sorted(first),
                    "stderr_error_lines": [l for l in err.splitlines() if l.startswith("Error processing")][:3], "verdict": "dir output == single-file output for every sheet; rerun identical"})


def replay(case):
    from cmv.rec import Rec
    import random
    scratch = tempfile.mkdtemp(prefix="c18-replay-")
    pristine = os.path.join(scratch, "p0")
    for rel, text in case["sheets"].items():
        p = os.path.join(pristine, rel)
        os.makedirs(os.path.dirname(p), exist_ok=True)
        if rel in case.get("links", {}):
            continue
        with open(p, "w", encoding="utf-8", newline="") as f:
            f.write(text)
    for lrel, target in case.get("links", {}).items():
        p = os.path.join(pristine, lrel)
        os.symlink(os.path.relpath(os.path.join(pristine, target), os.path.dirname(p)), p)
    print("replay rebuilds the stylesheets only (fault files are described by:", case["fault"], case["placement"], ")")
    rec = Rec()
    judge_tree(rec, scratch, 0, pristine, case["sheets"], [], [], "none", case["placement"], case["settings"], {}, random.Random(0))
    for v in rec.viol:
        print("VIOLATED:", v["what"])
    shutil.rmtree(scratch, ignore_errors=True)
    if not rec.viol:
        print("holds (without the fault file)")
    return not rec.viol
