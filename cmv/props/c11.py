"""C11 - CIE Lab and CIEDE2000 agree with the CIE definitions."""
import math

from cmv import contracts
from cmv.gen import colors as G
from cmv.oracles import cielab, ciede2000

ID = "C11"
LEVEL = "exploration"
ORACLES = ("cielab", "ciede2000", "wcag")
RULE = ("Lab: all 2^24 colours (thorough) / 2^20 stratified (quick) vs a first-principles sRGB->XYZ(D65)->Lab oracle, |d|<=0.05 per "
        "coordinate; XYZ likewise; xyz_to_lab on random XYZ. dE2000: the 34 Sharma-Wu-Dalal Lab pairs fed through a replaced rgb_to_lab "
        "(|d|<=1e-4), random Lab pairs the same way (1e-6 away from the hue discontinuity), RGB pairs (unit-step neighbours, uniform, "
        "near-neutral opposite hues, hue-wrap straddlers, mean-hue ~275 blues, dark/light ends) vs oracle within 0.05 of a member of the "
        "set-valued oracle; symmetric to 1e-9, finite, >=0, 0 iff identical, never raises; the dE contract also fires on every optimiser "
        "candidate of a side workload. Non-trivial = every distinct colour / pair judged.")
ASSUMPTIONS = ["oracles/cielab.py derives the RGB->XYZ matrix from the Rec.709 primaries and D65 (0.3127,0.3290), exact CIE epsilon/kappa",
               "oracles/ciede2000.py reproduces the 34 published pairs to 5e-5 (self-test); the 34 pairs themselves are transcribed from the paper",
               "at the |h'1-h'2|=180 discontinuity both branches are admissible when a 0.03 Lab disagreement could flip the branch"]
MUST_OBSERVE = {"any": ["lab_checked", "de_rgb_checked", "sharma_checked"]}
EXHAUSTIVE = {"thorough": ["Lab of all 2^24 colours", "34 published CIEDE2000 pairs"], "quick": ["34 published CIEDE2000 pairs"]}
LAB_TOL = 0.05
DE_TOL = 0.05


def shards(tier, seed):
    out = []
    if tier == "thorough":
        out += [{"kind": "lab", "r0": i * 4, "r1": i * 4 + 4, "step": 1} for i in range(64)]
        out += [{"kind": "neigh", "r0": i * 4, "r1": i * 4 + 4, "step": 4} for i in range(64)]
        out += [{"kind": "de_rand", "seed": seed, "idx": i, "n": 90000} for i in range(16)]
        out += [{"kind": "labhook", "seed": seed, "idx": i, "n": 40000} for i in range(4)]
    else:
        out += [{"kind": "lab", "r0": i * 16, "r1": i * 16 + 16, "step": 16} for i in range(16)]
        out += [{"kind": "neigh", "r0": i * 16, "r1": i * 16 + 16, "step": 64} for i in range(16)]
        out += [{"kind": "de_rand", "seed": seed, "idx": i, "n": 14000} for i in range(16)]
        out += [{"kind": "labhook", "seed": seed, "idx": 0, "n": 20000}]
    out.append({"kind": "side", "seed": seed, "n": 60 if tier == "quick" else 300})
    return out


def check_de(rec, de, a, b):
    case = {"fn": "de", "a": list(a), "b": list(b)}
    try:
        got = de(a, b)
        back = de(b, a)
    except Exception as e:
        rec.violation(f"calculate_delta_e_2000({a},{b}) raised {type(e).__name__}: {e}", case)
        return
    rec.count("de_rgb_checked")
    if not isinstance(got, (int, float)) or math.isnan(got) or math.isinf(got) or got < 0:
        rec.violation(f"calculate_delta_e_2000({a},{b}) = {got!r} (must be finite and >= 0)", case)
        return
    if abs(got - back) > 1e-9:
        rec.violation(f"calculate_delta_e_2000 asymmetric: ({a},{b}) = {got!r}, reversed = {back!r}", case)
        return
    if (a == b) != (got == 0):
        rec.violation(f"calculate_delta_e_2000({a},{b}) = {got!r}: zero must mean identical colours", case)
        return
    want = ciede2000.de_set(cielab.lab(a), cielab.lab(b))
    err = min(abs(got - w) for w in want)
    if len(want) > 1:
        rec.count("both_branch_cases")
    if err > DE_TOL:
        rec.violation(f"calculate_delta_e_2000({a},{b}) = {got:.5f}; CIE definition gives {[round(w, 5) for w in want]}", case)
    else:
        rec.maxi("max_de_err", err)


def work(shard, rec):
    from cmv.lib import Lib
    lib = Lib()
    cv = lib.mod("conversions")
    cm = lib.mod("color_metrics")
    de = getattr(cm, "calculate_delta_e_2000", None)
    to_lab = getattr(cv, "rgb_to_lab", None)
    to_xyz = getattr(cv, "rgb_to_xyz", None)
    xyz_to_lab = getattr(cv, "xyz_to_lab", None)
    if de is None or to_lab is None:
        rec.inconc("calculate_delta_e_2000 / rgb_to_lab not found")
        return
    k = shard["kind"]
    if k == "lab":
        st = shard["step"]
        n = 0
        worst = [0.0, 0.0, 0.0]
        for r in range(shard["r0"], shard["r1"]):
            for g in (range(256) if st == 1 else range((r * 5) % st, 256, st)):
                for b in range(256):
                    c = (r, g, b)
                    try:
                        got = to_lab(c)
                    except Exception as e:
                        rec.violation(f"rgb_to_lab({c}) raised {type(e).__name__}", {"fn": "lab", "a": list(c)})
                        continue
                    want = cielab.lab(c)
                    n += 1
                    for i in range(3):
                        d = abs(got[i] - want[i])
                        if d > worst[i]:
                            worst[i] = d
                            if d > LAB_TOL:
                                rec.violation(f"rgb_to_lab({c}) = {tuple(round(v, 4) for v in got)}; CIE definition gives {tuple(round(v, 4) for v in want)}",
                                              {"fn": "lab", "a": list(c)})
                    if to_xyz is not None and (b & 15) == 0:
                        x = to_xyz(c)
                        w = cielab.xyz(c)
                        if any(abs(x[i] - 100 * w[i]) > 0.05 for i in range(3)):
                            rec.violation(f"rgb_to_xyz({c}) = {x}; definition gives {tuple(round(100 * v, 4) for v in w)}", {"fn": "xyz", "a": list(c)})
                        rec.count("xyz_checked")
        rec.ev(n)
        rec.count("lab_checked", n)
        rec.nt_disjoint += n
        for i, nm in enumerate(("L", "a", "b")):
            rec.maxi(f"max_lab_err_{nm}", worst[i])
        c = (shard["r0"], 40, 220)
        rec.sample({"rgb": list(c), "library_lab": [round(v, 4) for v in to_lab(c)], "oracle_lab": [round(v, 4) for v in cielab.lab(c)]})
    elif k == "neigh":
        st = shard["step"]
        n = 0
        for r in range(shard["r0"], shard["r1"]):
            for g in range(256):
                for b in range((r + g) % st, 256, st):
                    c = (r, g, b)
                    for ch in range(3):
                        if c[ch] < 255:
                            nb = c[:ch] + (c[ch] + 1,) + c[ch + 1:]
                            check_de(rec, de, c, nb)
                            n += 1
        rec.ev(n)
        rec.nt_disjoint += n
    elif k == "de_rand":
        rnd = G.rng("c11de", shard["seed"], shard["idx"])
        for i in range(shard["n"]):
            m = i % 8
            if m == 0:   # near-neutral, opposite hues
                v = rnd.randrange(10, 246)
                a = tuple(min(255, max(0, v + rnd.randrange(-5, 6))) for _ in range(3))
                b = tuple(min(255, max(0, v + rnd.randrange(-5, 6))) for _ in range(3))
            elif m == 1:  # hue wrap straddlers: reds/magentas around h'=0/360
                a = (rnd.randrange(150, 256), rnd.randrange(0, 90), rnd.randrange(40, 140))
                b = (rnd.randrange(150, 256), rnd.randrange(0, 90), rnd.randrange(40, 140))
            elif m == 2:  # blues: mean hue near 275 (rotation term)
                a = (rnd.randrange(0, 110), rnd.randrange(0, 90), rnd.randrange(140, 256))
                b = (rnd.randrange(0, 110), rnd.randrange(0, 90), rnd.randrange(140, 256))
            elif m == 3:  # dark / light ends
                lo = rnd.random() < 0.5
                a = tuple(rnd.randrange(0, 14) if lo else rnd.randrange(242, 256) for _ in range(3))
                b = tuple(rnd.randrange(0, 14) if lo else rnd.randrange(242, 256) for _ in range(3))
            elif m == 4:  # close pairs (the optimiser's regime, dE < 5)
                a = G.uniform(rnd)
                b = tuple(min(255, max(0, v + rnd.randrange(-8, 9))) for v in a)
            elif m == 5:
                a = G.uniform(rnd)
                b = a
            else:
                a, b = G.uniform(rnd), G.uniform(rnd)
            check_de(rec, de, a, b)
            rec.ev()
            rec.nontrivial((a, b))
            if i % 9 == 0:
                # caller-owned list objects overwritten in place between two back-to-back calls
                la, lb = list(a), list(b)
                try:
                    de(la, lb)
                    la[:] = [min(255, max(0, v + rnd.choice([-30, -6, 8, 45]))) for v in la]
                    if i % 18 == 0:
                        lb[:] = [min(255, max(0, v + rnd.choice([-25, 7, 50]))) for v in lb]
                    got = de(la, lb)
                    want = ciede2000.de_set(cielab.lab(tuple(la)), cielab.lab(tuple(lb)))
                    rec.count("reused_list_arguments")
                    if min(abs(got - w) for w in want) > DE_TOL:
                        rec.violation(f"calculate_delta_e_2000({la}, {lb}) = {got:.5f} right after a call with the same list objects holding other values; "
                                      f"CIE definition gives {[round(w, 5) for w in want]}", {"fn": "de", "a": la, "b": lb})
                except Exception as e:
                    rec.violation(f"calculate_delta_e_2000 on list arguments raised {type(e).__name__}: {e}", {"fn": "de", "a": list(a), "b": list(b)})
        rec.sample({"a": list(a), "b": list(b), "library_dE": de(a, b), "oracle_dE": ciede2000.de_set(cielab.lab(a), cielab.lab(b))})
    elif k == "labhook":
        labhook(shard, rec, cm, de)
    elif k == "side":
        side(shard, rec, lib, cm)


def labhook(shard, rec, cm, de):
    """Feed Lab triples directly by replacing the rgb_to_lab the difference
    routine looks up (attribute replacement in this process)."""
    if not hasattr(cm, "rgb_to_lab"):
        rec.count("skipped:labhook(color_metrics.rgb_to_lab absent)")
        return
    orig = cm.rgb_to_lab
    cm.rgb_to_lab = lambda lab: tuple(lab)
    try:
        for row in ciede2000.SHARMA:
            for a, b in ((row[0:3], row[3:6]), (row[3:6], row[0:3])):
                got = de(tuple(a), tuple(b))
                rec.ev()
                rec.count("sharma_checked")
                rec.nontrivial(("sharma", a, b))
                if abs(got - row[6]) > 1e-4:
                    rec.violation(f"published pair {a} vs {b}: library {got:.4f}, Sharma-Wu-Dalal {row[6]:.4f}",
                                  {"fn": "lab_de", "a": list(a), "b": list(b), "want": row[6]})
        rec.sample({"lab1": list(ciede2000.SHARMA[16][0:3]), "lab2": list(ciede2000.SHARMA[16][3:6]),
                    "library": de(tuple(ciede2000.SHARMA[16][0:3]), tuple(ciede2000.SHARMA[16][3:6])), "published": ciede2000.SHARMA[16][6]})
        rnd = G.rng("c11hook", shard["seed"], shard["idx"])
        for i in range(shard["n"]):
            if i % 3 == 0:
                a = (rnd.uniform(0, 100), rnd.uniform(-4, 4), rnd.uniform(-4, 4))
                b = (rnd.uniform(0, 100), rnd.uniform(-4, 4), rnd.uniform(-4, 4))
            elif i % 3 == 1:
                a = (rnd.uniform(0, 100), rnd.uniform(-100, 100), rnd.uniform(-110, 100))
                b = (a[0] + rnd.uniform(-3, 3), a[1] + rnd.uniform(-4, 4), a[2] + rnd.uniform(-4, 4))
            else:
                a = (rnd.uniform(0, 100), rnd.uniform(-100, 100), rnd.uniform(-110, 100))
                b = (rnd.uniform(0, 100), rnd.uniform(-100, 100), rnd.uniform(-110, 100))
            got = de(a, b)
            rec.ev()
            rec.count("lab_de_checked")
            rec.nontrivial(("labde", a, b))
            want = ciede2000.de_set(a, b, tol=1e-7)
            if min(abs(got - w) for w in want) > 1e-6:
                rec.violation(f"Lab pair {a} vs {b}: library {got!r}, definition {want}", {"fn": "lab_de", "a": list(a), "b": list(b), "want": want[0]})
            if abs(got - de(b, a)) > 1e-9:
                rec.violation(f"Lab pair {a} vs {b}: asymmetric {got!r} vs {de(b, a)!r}", {"fn": "lab_de", "a": list(a), "b": list(b), "want": want[0]})
    finally:
        cm.rgb_to_lab = orig


def side(shard, rec, lib, cm):
    def de_post(rgb1, rgb2, result):
        rec.count("contract:calculate_delta_e_2000")
        try:
            a, b = tuple(rgb1), tuple(rgb2)
            want = ciede2000.de_set(cielab.lab(a), cielab.lab(b))
            if not (result >= 0) or min(abs(result - w) for w in want) > DE_TOL:
                rec.violation(f"(during optimiser run) calculate_delta_e_2000({a},{b}) = {result!r}; definition {want}", {"fn": "de", "a": list(a), "b": list(b)})
        except Exception:
            rec.count("contract:unjudgeable")
        return True

    contracts.ensure(cm, "calculate_delta_e_2000", de_post)
    rec.count("contract_backend:" + contracts.BACKEND)
    rnd = G.rng("c11side", shard["seed"])
    for i in range(shard["n"]):
        g = G.below(rnd, i % 2 == 0, i % 4 < 2)
        if g:
            rec.ev()
            try:
                lib.ColorPair(g[0], g[1], large_text=(i % 2 == 0)).make_readable(mode=i % 3, very_readable=(i % 4 < 2))
            except Exception as e:
                rec.count(f"side_call_raised:{type(e).__name__}")


def replay(case):
    from cmv.lib import Lib
    lib = Lib()
    cv, cm = lib.mod("conversions"), lib.mod("color_metrics")
    if case["fn"] in ("lab", "xyz"):
        c = tuple(case["a"])
        got, want = cv.rgb_to_lab(c), cielab.lab(c)
        print(f"rgb_to_lab{c}: library {got}, oracle {want}")
        return all(abs(g - w) <= LAB_TOL for g, w in zip(got, want))
    if case["fn"] == "de":
        a, b = tuple(case["a"]), tuple(case["b"])
        got = cm.calculate_delta_e_2000(a, b)
        want = ciede2000.de_set(cielab.lab(a), cielab.lab(b))
        print(f"dE2000{a}{b}: library {got}, reversed {cm.calculate_delta_e_2000(b, a)}, oracle {want}")
        return min(abs(got - w) for w in want) <= DE_TOL
    orig = cm.rgb_to_lab
    cm.rgb_to_lab = lambda lab: tuple(lab)
    try:
        got = cm.calculate_delta_e_2000(tuple(case["a"]), tuple(case["b"]))
    finally:
        cm.rgb_to_lab = orig
    print(f"Lab pair {case['a']} vs {case['b']}: library {got}, expected {case['want']}")
    return abs(got - case["want"]) <= 1e-4
