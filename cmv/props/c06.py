"""C06 - output keeps the input's format and reads back as exactly the judged
colour."""
import re

from cmv import pairwork as PW
from cmv.gen import colors as G, spellings as SP
from cmv.oracles import wcag, csscolor

ID = "C06"
LEVEL = "exploration"
ORACLES = ("wcag", "csscolor")
RULE = ("(a) format_color(c, fmt) for fmt in hex/rgb/hsl/rgb_tuple over all 2^24 colours (thorough) or 2^18 stratified + greys + axes + "
        "cube corners (quick): output is of the right kind and BOTH the library's parser and the CSS reference read it back as exactly c "
        "(tinycss2.color3 as third opinion on 1/64); (b) public API on colours that already pass against black or white (large text): "
        "make_readable returns c in the counterpart of the input's format for every input spelling; (c) optimiser-path calls, also with show / save_report and under -W error: input "
        "spelling x outcome (fixed/failed) x mode -> kind of the result and library read-back == reference read-back. "
        "Non-trivial = every (colour, format) judged; distinct by construction in (a)/(b).")
ASSUMPTIONS = ["oracles/csscolor.py (self-tested against tinycss2.color3); float fast path falls back to exact rationals within 1e-6 of a rounding tie"]
MUST_OBSERVE = {"any": ["api_unneeded_checked", "api_optimiser_checked"]}   # format_color / parse_color_to_rgb sub-checks are auxiliary
EXHAUSTIVE = {"thorough": ["format_color over all 2^24 colours x {hex, rgb, hsl, rgb_tuple}"], "quick": []}
HEX_OUT = re.compile(r"^#[0-9a-fA-F]{6}$|^#[0-9a-fA-F]{3}$")


def shards(tier, seed):
    out = []
    if tier == "thorough":
        out += [{"kind": "fmt", "r0": i * 4, "r1": i * 4 + 4, "step": 1} for i in range(64)]
        out += [{"kind": "api", "r0": i * 8, "r1": i * 8 + 8, "step": 16} for i in range(32)]
        n_opt = 6000
    else:
        out += [{"kind": "fmt", "r0": i * 16, "r1": i * 16 + 16, "step": 64} for i in range(16)]
        out += [{"kind": "api", "r0": i * 32, "r1": i * 32 + 32, "step": 1024} for i in range(8)]
        n_opt = 700
    out.append({"kind": "axes"})
    cases = PW.build_cases(seed, "c06", n_opt, per_pair_configs=2, translucent_every=6)
    out += [{"kind": "opt", "cases": c} for c in PW.chunk(cases, 16)]
    # the same mapping with Python warnings escalated to errors (python -W error / PYTHONWARNINGS=error): a legitimate way
    # to run any library; the format mapping must not depend on the warning filter
    wcases = PW.build_cases(seed, "c06w", 160 if tier == "quick" else 1600, per_pair_configs=2, translucent_every=3)
    out += [{"kind": "opt", "cases": c, "warnings_as_errors": True} for c in PW.chunk(wcases, 2)]
    # the same mapping when a console preview and / or an HTML report is asked for (show / save_report)
    fcases = PW.build_cases(seed, "c06f", 120 if tier == "quick" else 1200, per_pair_configs=2, translucent_every=5)
    out += [{"kind": "opt", "cases": c, "flags": True} for c in PW.chunk(fcases, 2)]
    return out


def kind_ok(value, want):
    if want == "tuple":
        return type(value) is tuple and len(value) == 3 and all(type(v) is int for v in value)
    if not isinstance(value, str):
        return False
    if want == "hex":
        return bool(HEX_OUT.match(value.strip()))
    return csscolor.classify(value) == want


def lib_read(parse, value):
    try:
        return tuple(parse(value))
    except Exception as e:
        return f"{type(e).__name__}: {e}"


def fmt_one(rec, fmt_color, parse, c, third=False):
    for fmt, want in (("hex", "hex"), ("rgb", "rgb"), ("hsl", "hsl"), ("rgb_tuple", "tuple")):
        case = {"fn": "fmt", "c": list(c), "fmt": fmt}
        try:
            out = fmt_color(c, fmt)
        except Exception as e:
            rec.violation(f"format_color({c},{fmt!r}) raised {type(e).__name__}: {e}", case)
            continue
        rec.count("format_checked:" + fmt)
        if want == "tuple":
            if out != c or not kind_ok(out, "tuple"):
                rec.violation(f"format_color({c},'rgb_tuple') = {out!r}", case)
            continue
        if not isinstance(out, str):
            rec.violation(f"format_color({c},{fmt!r}) = {out!r} is not a string", case)
            continue
        try:
            ref = csscolor.read_fast(out)
        except csscolor.NotCSS as e:
            rec.violation(f"format_color({c},{fmt!r}) = {out!r} is not valid CSS ({e})", case)
            continue
        if ref != c:
            rec.violation(f"format_color({c},{fmt!r}) = {out!r} reads back as {ref} under CSS", case)
            continue
        if (want == "hex" and not HEX_OUT.match(out)) or (want != "hex" and not out.strip().lower().startswith(want + "(")):
            rec.violation(f"format_color({c},{fmt!r}) = {out!r} is not {want} notation", case)
            continue
        mine = lib_read(parse, out)
        if mine != c:
            rec.violation(f"format_color({c},{fmt!r}) = {out!r}: the library's own parser reads it as {mine}", case,
                          key=classify_hsl(out, mine))
        if third and fmt != "hex":
            import tinycss2.color3 as c3
            t = c3.parse_color(out)
            if t is None or tuple(int(round(min(1.0, max(0.0, v)) * 255)) for v in (t.red, t.green, t.blue)) != c:
                # tinycss2 does not clamp saturation; only an in-range value is a real third opinion
                m = re.search(r",\s*([0-9.eE+-]+)%", out)
                if not (m and float(m.group(1)) > 100.0):
                    rec.violation(f"format_color({c},{fmt!r}) = {out!r}: tinycss2.color3 reads {t}", case)
            rec.count("third_opinion")


def classify_hsl(out, mine):
    return None


def work(shard, rec):
    from cmv.lib import Lib
    lib = Lib()
    cp = lib.mod("color_parser")
    fmt_color = getattr(cp, "format_color", None)
    parse = getattr(cp, "parse_color_to_rgb", None)
    k = shard["kind"]
    if k in ("fmt", "axes") and (fmt_color is None or parse is None):
        rec.count("skipped:format_color/parse_color_to_rgb absent")
        return
    if k == "fmt":
        st = shard["step"]
        n = 0
        for r in range(shard["r0"], shard["r1"]):
            for g in range(256):
                for b in (range(256) if st == 1 else range((r * 31 + g * 7) % st, 256, st)):
                    fmt_one(rec, fmt_color, parse, (r, g, b), third=((r + g + b) & 63) == 0)
                    n += 1
        rec.ev(n * 4)
        rec.nt_disjoint += n * 4
        c = (shard["r0"], 200, 17)
        rec.sample({"colour": list(c), "hex": fmt_color(c, "hex"), "rgb": fmt_color(c, "rgb"), "hsl": fmt_color(c, "hsl"),
                    "library_reads_hsl_as": repr(lib_read(parse, fmt_color(c, "hsl"))), "reference_reads_hsl_as": list(csscolor.read(fmt_color(c, "hsl")))})
    elif k == "axes":
        seen = set()
        for v in range(256):
            for c in ((v, v, v), (v, 0, 0), (0, v, 0), (0, 0, v), (255, v, 0), (0, 255, v), (v, 0, 255), (255, 255, v), (v, 255, 255), (255, v, 255)):
                if c not in seen:
                    seen.add(c)
                    fmt_one(rec, fmt_color, parse, c, third=True)
                    rec.nontrivial(("axes", c))
        rec.ev(len(seen) * 4)
    elif k == "api":
        api_unneeded(shard, rec, lib)
    elif k == "opt":
        if shard.get("warnings_as_errors"):
            import warnings
            warnings.simplefilter("error")
            rec.count("warnings_as_errors_shards")
        if shard.get("flags"):
            return with_flags(shard, rec, lib)
        PW.run_cases(shard, rec, lib, [judge_opt])


def with_flags(shard, rec, lib):
    import contextlib
    import io
    import os
    import tempfile
    d = os.path.join(os.environ.get("CMV_SCRATCH", tempfile.gettempdir()), "c06-flags-%d" % os.getpid())
    os.makedirs(d, exist_ok=True)
    os.chdir(d)
    for i, case in enumerate(shard["cases"]):
        text, bg = SP.from_json(case["text"], case["tk"]), SP.from_json(case["bg"], case["bk"])
        show, save = [(True, False), (False, True), (True, True)][i % 3]
        res = {}
        try:
            pair = lib.ColorPair(text, bg, large_text=False)
            if not pair.is_valid:
                rec.count("skipped:library rejects reference-valid spelling")
                continue
            for (mode, large, vr) in [tuple(c) for c in case["cfgs"]]:
                pair = lib.ColorPair(text, bg, large_text=large)
                with contextlib.redirect_stdout(io.StringIO()), contextlib.redirect_stderr(io.StringIO()):
                    res[(mode, large, vr)] = pair.make_readable(mode=mode, very_readable=vr, show=show, save_report=save)
        except Exception as e:
            rec.count(f"flags_call_raised:{type(e).__name__}(C17)")
            continue
        rec.ev(len(res))
        rec.count("flag_calls_judged", len(res))
        rec.count(f"flags:show={show},save_report={save}")
        obs = {"res": res, "orig": tuple(pair.text.rgb), "bgi": tuple(case["b"]), "skip": None}
        judge_opt(dict(case, show=show, save=save), obs, rec)


def api_unneeded(shard, rec, lib):
    """Every colour passes (ratio >= sqrt(21) > 3) against black or white as
    large text, so make_readable returns it without touching the optimiser:
    the pure format mapping of the public API."""
    st = shard["step"]
    n = 0
    for r in range(shard["r0"], shard["r1"]):
        for g in range(256):
            for b in range((r * 131 + g * 17) % st, 256, st):
                c = (r, g, b)
                bg = (0, 0, 0) if wcag.ratio(c, (0, 0, 0)) >= wcag.ratio(c, (255, 255, 255)) else (255, 255, 255)
                kinds = [kk for kk in SP.available(c) if SP.OUT_KIND[kk[0]] is not None]
                # rotate through the spellings deterministically, always include hsl and rgb
                pick = [kinds[(n + i) % len(kinds)] for i in range(2)] + [kk for kk in kinds if kk[0] in ("hsl",)]
                for kind, sp in pick:
                    case = {"fn": "api", "c": list(c), "kind": kind, "text": SP.jsonable(sp), "bg": list(bg)}
                    try:
                        out, ok = lib.ColorPair(sp, bg, large_text=True).make_readable()
                    except Exception as e:
                        rec.violation(f"ColorPair({sp!r},{bg},large_text=True).make_readable() raised {type(e).__name__}: {e}", case)
                        continue
                    rec.count("api_unneeded_checked")
                    rec.count("api_kind:" + kind)
                    want = SP.OUT_KIND[kind]
                    rb = PW.readback(out)
                    if ok is not True or not kind_ok(out, want) or rb != c:
                        rec.violation(f"ColorPair({sp!r},{bg},large_text=True).make_readable() = {(out, ok)!r}; expected {want} notation for {c} unchanged", case)
                n += 1
    rec.ev(n)
    rec.nt_disjoint += n


def judge_opt(case, obs, rec):
    bg = obs["bgi"]
    want = SP.OUT_KIND[case["tk"]]
    if want is None:
        rec.count("spelling_outside_documented_mapping_not_judged")
        return
    from cmv.lib import Lib
    parse = Lib().fn("color_parser", "parse_color_to_rgb")
    for (mode, large, vr), out in obs["res"].items():
        cs = {"fn": "opt", **{k: case[k] for k in ("text", "bg", "tk", "bk", "t", "b")}, "mode": mode, "large": large, "vr": vr, "observed": repr(out)}
        if "show" in case:
            cs.update(show=case["show"], save=case["save"])
        if out[0] == "EXC":
            rec.violation(f"make_readable raised {out[1]}", cs)
            continue
        colour, success = out
        mn = wcag.minimum(large, vr)
        outcome = "unneeded" if wcag.ratio(obs["orig"], bg) >= mn else ("fixed" if success else "failed")
        rec.count("api_optimiser_checked")
        rec.count(f"opt:{want}:{outcome}")
        rec.nontrivial((case["t"], case["b"], case["tk"], mode, large, vr))
        if not kind_ok(colour, want):
            rec.violation(f"text={case['text']!r} ({case['tk']}) bg={case['bg']!r} mode={mode} large={large} vr={vr} [{outcome}]: returned {colour!r}, "
                          f"expected {want} notation", cs)
            continue
        rb = PW.readback(colour)
        if rb is None:
            rec.violation(f"text={case['text']!r} [{outcome}]: returned {colour!r} is not valid CSS", cs)
            continue
        if parse is not None and want != "tuple":
            mine = lib_read(parse, colour)
            if mine != rb:
                rec.violation(f"text={case['text']!r} mode={mode} [{outcome}]: returned {colour!r}; CSS reads {rb}, the library's own parser reads {mine}", cs)
        if len(rec.samples) < 3 and outcome != "unneeded":
            rec.sample({"text": case["text"], "bg": case["bg"], "config": [mode, large, vr], "outcome": outcome, "returned": colour, "reads_back_as": list(rb)})


def replay(case):
    from cmv.lib import Lib
    from cmv.rec import Rec
    lib = Lib()
    rec = Rec()
    if case["fn"] == "fmt":
        cp = lib.mod("color_parser")
        fmt_one(rec, cp.format_color, cp.parse_color_to_rgb, tuple(case["c"]))
        print("format_color outputs:", {f: cp.format_color(tuple(case["c"]), f) for f in ("hex", "rgb", "hsl")})
    elif case["fn"] == "api":
        sp = SP.from_json(case["text"], case["kind"])
        out = lib.ColorPair(sp, tuple(case["bg"]), large_text=True).make_readable()
        print(f"ColorPair({sp!r},{tuple(case['bg'])},large_text=True).make_readable() = {out!r}")
        if not (out[1] is True and kind_ok(out[0], SP.OUT_KIND[case["kind"]]) and PW.readback(out[0]) == tuple(case["c"])):
            rec.violation("format/read-back mismatch", case)
    else:
        c = dict(case)
        c["cfgs"] = [[case["mode"], case["large"], case["vr"]]]
        c["cls"] = "replay"
        if "show" in case:
            import contextlib, io, os, tempfile
            os.chdir(tempfile.mkdtemp(prefix="c06-replay-"))
            text, bg = SP.from_json(case["text"], case["tk"]), SP.from_json(case["bg"], case["bk"])
            pair = lib.ColorPair(text, bg, large_text=case["large"])
            with contextlib.redirect_stdout(io.StringIO()), contextlib.redirect_stderr(io.StringIO()):
                out = pair.make_readable(mode=case["mode"], very_readable=case["vr"], show=case["show"], save_report=case["save"])
            obs = {"res": {(case["mode"], case["large"], case["vr"]): out}, "orig": tuple(pair.text.rgb), "bgi": tuple(case["b"]), "skip": None}
        else:
            obs = PW.observe(c, lib)
        print("observed:", obs["res"])
        if not obs["skip"]:
            judge_opt(c, obs, rec)
    for v in rec.viol:
        print("VIOLATED:", v["what"])
    if not rec.viol:
        print("holds")
    return not rec.viol
