"""C10 - OKLCH conversion matches the OKLab definition; lossless on all 8-bit
colours; safe variants stay valid on invalid input."""
import math

from cmv import contracts
from cmv.gen import colors as G
from cmv.oracles import oklab, wcag

ID = "C10"
LEVEL = "exploration"
ORACLES = ("oklab", "cielab", "wcag")
RULE = ("forward + round trip: all 2^24 colours (thorough) / 2^20 stratified + all greys + channel axes (quick), compared in Cartesian "
        "OKLab with the published definition (either published route, 2e-5), ranges L in [0,1], C>=0, H in [0,360), exact round trip, "
        "safe == plain; inverse: (L,C<=0.5,H) grid + random + gamut-boundary points -> three ints 0..255 within 1 unit of the oracle's "
        "clip-and-round, achromatic axis rules; safe variants on invalid triples (finite out-of-range, nan/inf) still return valid values; "
        "round trips from 8 threads at once (switch interval 1 us) against single-threaded reference values; "
        "the _safe contracts also fire on every candidate of an optimiser side workload. Non-trivial = every distinct colour/triple judged.")
ASSUMPTIONS = ["oracles/oklab.py: Ottosson's published matrices, inverses computed numerically, self-tested on the published example rows",
               "'L=0 black' is demanded on the achromatic axis only: the published definition + clipping gives (20,0,0) for (0,0.3,0deg)"]
MUST_OBSERVE = {"any": ["forward_checked", "roundtrip_checked", "inverse_checked", "safe_invalid_checked"]}
EXHAUSTIVE = {"thorough": ["forward conversion, ranges and round trip over all 2^24 colours"], "quick": []}
FWD_TOL = 2e-5


def shards(tier, seed):
    out = []
    if tier == "thorough":
        out += [{"kind": "fwd", "r0": i * 4, "r1": i * 4 + 4, "step": 1} for i in range(64)]
        out += [{"kind": "inv_grid", "l0": i, "lstep": 16, "nl": 101, "nc": 51, "nh": 73} for i in range(16)]
        out += [{"kind": "inv_rand", "seed": seed, "idx": i, "n": 62500} for i in range(16)]
        out += [{"kind": "safe", "seed": seed, "idx": i, "n": 12000} for i in range(4)]
    else:
        out += [{"kind": "fwd", "r0": i * 16, "r1": i * 16 + 16, "step": 16} for i in range(16)]
        out += [{"kind": "inv_grid", "l0": i, "lstep": 16, "nl": 51, "nc": 26, "nh": 37} for i in range(16)]
        out += [{"kind": "inv_rand", "seed": seed, "idx": i, "n": 8000} for i in range(8)]
        out += [{"kind": "safe", "seed": seed, "idx": i, "n": 6000} for i in range(2)]
    out.append({"kind": "axes"})
    out.append({"kind": "side", "seed": seed, "n": 60 if tier == "quick" else 300})
    # the conversions called from several threads of one process at once (a web worker pool converting different colours):
    # every call still returns its own colour's value
    out += [{"kind": "threads", "seed": seed, "idx": i, "n": 2500 if tier == "quick" else 25000} for i in range(2 if tier == "quick" else 8)]
    return out


def valid_rgb(x):
    return type(x) is tuple and len(x) == 3 and all(type(v) is int and 0 <= v <= 255 for v in x)


def fwd_one(rec, conv, c):
    f, inv, fs, invs = conv
    try:
        L, C, H = f(c)
    except Exception as e:
        rec.violation(f"rgb_to_oklch({c}) raised {type(e).__name__}: {e}", {"fn": "fwd", "c": list(c)})
        return
    rec.count("forward_checked")
    if not (0.0 <= L <= 1.0 and C >= 0.0 and 0.0 <= H < 360.0):
        rec.violation(f"rgb_to_oklch({c}) = {(L, C, H)} outside L in [0,1], C>=0, H in [0,360)", {"fn": "fwd", "c": list(c)})
        return
    a = C * math.cos(math.radians(H))
    b = C * math.sin(math.radians(H))
    d1 = oklab.lab_direct(c)
    e1 = max(abs(L - d1[0]), abs(a - d1[1]), abs(b - d1[2]))
    if e1 > FWD_TOL:
        d2 = oklab.lab_via_xyz(c)
        e2 = max(abs(L - d2[0]), abs(a - d2[1]), abs(b - d2[2]))
        if e2 > FWD_TOL:
            rec.violation(f"rgb_to_oklch({c}) = {(L, C, H)} -> OKLab ({L:.6f},{a:.6f},{b:.6f}); definition gives {tuple(round(v, 6) for v in d1)} "
                          f"(err {min(e1, e2):.2e})", {"fn": "fwd", "c": list(c)})
            return
        rec.maxi("max_fwd_err_vs_nearest_route", e2)
    else:
        rec.maxi("max_fwd_err_vs_nearest_route", e1)
    try:
        back = inv((L, C, H))
    except Exception as e:
        rec.violation(f"oklch_to_rgb(rgb_to_oklch({c})) raised {type(e).__name__}: {e}", {"fn": "fwd", "c": list(c)})
        return
    rec.count("roundtrip_checked")
    if tuple(back) != c or not valid_rgb(back):
        rec.violation(f"round trip {c} -> {(L, C, H)} -> {back}", {"fn": "fwd", "c": list(c)})
    if fs is not None:
        s = fs(c)
        if s != (L, C, H):
            rec.violation(f"rgb_to_oklch_safe({c}) = {s} != plain {(L, C, H)}", {"fn": "fwd", "c": list(c)})
        if invs is not None and invs((L, C, H)) != back:
            rec.violation(f"oklch_to_rgb_safe({(L, C, H)}) != plain {back}", {"fn": "fwd", "c": list(c)})


def inv_one(rec, conv, t):
    f, inv, fs, invs = conv
    L, C, H = t
    try:
        got = inv(t)
    except Exception as e:
        rec.violation(f"oklch_to_rgb({t}) raised {type(e).__name__}: {e}", {"fn": "inv", "t": list(t)})
        return
    rec.count("inverse_checked")
    if not valid_rgb(got):
        rec.violation(f"oklch_to_rgb({t}) = {got!r} is not three ints in 0..255", {"fn": "inv", "t": list(t)})
        return
    want = oklab.rgb_from_lch_clip(L, C, H)
    if any(abs(g - w) > 1.0 + 1e-9 for g, w in zip(got, want)):
        rec.violation(f"oklch_to_rgb({t}) = {got}; definition + clip gives {tuple(round(w, 3) for w in want)}", {"fn": "inv", "t": list(t)})
        return
    rec.maxi("max_inverse_dev_units", max(abs(g - w) for g, w in zip(got, want)))
    if C == 0:
        if L == 0 and got != (0, 0, 0):
            rec.violation(f"oklch_to_rgb({t}) = {got}, expected black", {"fn": "inv", "t": list(t)})
        if L == 1 and got != (255, 255, 255):
            rec.violation(f"oklch_to_rgb({t}) = {got}, expected white", {"fn": "inv", "t": list(t)})
        if max(got) - min(got) > 1:
            rec.violation(f"oklch_to_rgb({t}) = {got}, C=0 must be grey within one unit", {"fn": "inv", "t": list(t)})
    if invs is not None and 0 <= H <= 360:
        s = invs(t)
        if s != got:
            rec.violation(f"oklch_to_rgb_safe({t}) = {s} != plain {got}", {"fn": "inv", "t": list(t)})


def extreme_one(rec, conv, t):
    """Finite triples far outside the gamut: the plain inverse must still give three ints in 0..255, and the safe variant
    (for H within [0,360]) the same."""
    f, inv, fs, invs = conv
    rec.count("inverse_extreme_checked")
    try:
        got = inv(t)
    except Exception as e:
        rec.violation(f"oklch_to_rgb({t}) raised {type(e).__name__}: {e}", {"fn": "inv", "t": list(t)})
        return
    if not valid_rgb(got):
        rec.violation(f"oklch_to_rgb({t}) = {got!r} is not three ints in 0..255", {"fn": "inv", "t": list(t)})
    elif invs is not None and 0 <= t[2] <= 360 and invs(t) != got:
        rec.violation(f"oklch_to_rgb_safe({t}) = {invs(t)} != plain {got}", {"fn": "inv", "t": list(t)})


BAD_F = [float("nan"), float("inf"), float("-inf"), 1e308, -1e308]


def safe_cases(rnd, n):
    """(direction, triple, class)"""
    for i in range(n):
        k = i % 8
        if k == 0:   # forward, finite out of range
            c = [rnd.randrange(256) for _ in range(3)]
            c[rnd.randrange(3)] = rnd.choice([-1, 256, 300, -1000, 1000, rnd.randrange(-1000, 0), rnd.randrange(256, 1001)])
            yield "fwd", tuple(c), "class1"
        elif k == 1:  # forward floats out of range
            c = [rnd.uniform(-1000, 1000) for _ in range(3)]
            yield "fwd", tuple(c), "class1"
        elif k == 2:  # inverse, finite out of range
            t = [rnd.uniform(0, 1), rnd.uniform(0, 0.5), rnd.uniform(0, 360)]
            j = rnd.randrange(3)
            t[j] = [rnd.choice([-0.001, 1.001, 2.0, -5.0, 100.0]), rnd.choice([-1e-9, -0.1, -3.0]), rnd.choice([-0.001, 360.001, 720.0, -90.0])][j]
            yield "inv", tuple(t), "class1"
        elif k == 3:  # inverse, several out of range
            yield "inv", (rnd.uniform(-3, 3), rnd.uniform(-1, 1), rnd.uniform(-720, 720)), "class1"
        elif k == 4:  # inverse non-finite
            t = [rnd.uniform(0, 1), rnd.uniform(0, 0.5), rnd.uniform(0, 360)]
            t[rnd.randrange(3)] = rnd.choice(BAD_F)
            yield "inv", tuple(t), "class2"
        elif k == 5:  # forward non-finite
            c = [float(rnd.randrange(256)) for _ in range(3)]
            c[rnd.randrange(3)] = rnd.choice(BAD_F)
            yield "fwd", tuple(c), "class2"
        elif k == 6:  # inverse huge finite
            yield "inv", (rnd.choice([1e300, -1e300, 1e18]), rnd.uniform(0, 0.5), rnd.uniform(0, 360)), "class2"
        else:        # valid (safe == plain)
            yield "inv", (rnd.uniform(0, 1), rnd.uniform(0, 0.5), rnd.uniform(0, 360)), "valid"


def safe_one(rec, conv, direction, t, cls):
    f, inv, fs, invs = conv
    rec.count("safe_invalid_checked" if cls != "valid" else "safe_valid_checked")
    rec.count(f"safe:{direction}:{cls}")
    case = {"fn": "safe", "dir": direction, "t": [repr(v) for v in t], "cls": cls}
    if direction == "inv":
        if invs is None:
            rec.count("skipped:oklch_to_rgb_safe absent")
            return
        try:
            got = invs(t)
        except Exception as e:
            rec.violation(f"oklch_to_rgb_safe({t}) raised {type(e).__name__}: {e}", case)
            return
        if not valid_rgb(got):
            rec.violation(f"oklch_to_rgb_safe({t}) = {got!r} is not a valid 8-bit colour", case)
        elif cls == "valid" and got != inv(t):
            rec.violation(f"oklch_to_rgb_safe({t}) = {got} != plain {inv(t)}", case)
    else:
        if fs is None:
            rec.count("skipped:rgb_to_oklch_safe absent")
            return
        try:
            got = fs(t)
        except Exception as e:
            rec.violation(f"rgb_to_oklch_safe({t}) raised {type(e).__name__}: {e}", case)
            return
        ok = False
        try:
            L, C, H = got
            ok = 0.0 <= L <= 1.0 and C >= 0.0 and 0.0 <= H <= 360.0
        except Exception:
            pass
        if not ok:
            rec.violation(f"rgb_to_oklch_safe({t}) = {got!r} is not a valid OKLCH triple (L in [0,1], C>=0, H in [0,360])", case)


def aliases_after_invalid(rec, conv, rnd, n):
    """History: the safe variants are first given a just-out-of-range triple, then the valid triples it could be confused
    with (clamped, wrapped modulo 256, carried into the neighbouring channel); on those the safe variant must still equal
    the plain one ('equal the plain ones on valid input' holds after any earlier call)."""
    f, inv, fs, invs = conv
    if fs is None:
        return
    for _ in range(n):
        c = [rnd.randrange(256) for _ in range(3)]
        j = rnd.randrange(3)
        c[j] = rnd.choice([256, 257, -1, -2, 255 + rnd.randrange(1, 4), -rnd.randrange(1, 4)])
        t = tuple(c)
        try:
            fs(t)
        except Exception:
            pass   # judged by safe_one
        cands = {tuple(min(255, max(0, v)) for v in t), tuple(v % 256 for v in t)}
        for base in (256, 255):
            nkey = (t[0] * base + t[1]) * base + t[2]
            if nkey >= 0:
                cands.add(((nkey // (base * base)) % 256, (nkey // base) % base % 256, nkey % base % 256))
        for v in cands:
            rec.ev()
            rec.count("alias_after_invalid_checked")
            try:
                a, b = fs(v), f(v)
            except Exception as e:
                rec.violation(f"rgb_to_oklch_safe({v}) raised {type(e).__name__} after an invalid call", {"fn": "alias", "invalid": list(t), "valid": list(v)})
                continue
            if a != b:
                rec.violation(f"after rgb_to_oklch_safe({t}) (invalid), rgb_to_oklch_safe({v}) = {a} but the plain conversion gives {b}",
                              {"fn": "alias", "invalid": list(t), "valid": list(v)})
            if invs is not None and invs(b) != inv(b):
                rec.violation(f"after an invalid call, oklch_to_rgb_safe({b}) = {invs(b)} != plain {inv(b)}", {"fn": "alias", "invalid": list(t), "valid": list(v)})


def work(shard, rec):
    from cmv.lib import Lib
    lib = Lib()
    cv = lib.mod("conversions")
    conv = tuple(getattr(cv, n, None) for n in ("rgb_to_oklch", "oklch_to_rgb", "rgb_to_oklch_safe", "oklch_to_rgb_safe"))
    if conv[0] is None or conv[1] is None:
        rec.inconc("rgb_to_oklch / oklch_to_rgb not found in cm_colors.core.conversions")
        return
    k = shard["kind"]
    if k == "fwd":
        st = shard["step"]
        n = 0
        for r in range(shard["r0"], shard["r1"]):
            for g in (range(256) if st == 1 else range((r * 7) % st, 256, st)):
                for b in range(256):
                    fwd_one(rec, conv, (r, g, b))
                    n += 1
        rec.ev(n)
        rec.nt_disjoint += n
        c = (shard["r0"], 99, 200)
        rec.sample({"rgb": list(c), "library_oklch": list(conv[0](c)), "oracle_oklch": list(oklab.lch(oklab.lab_direct(c)))})
    elif k == "axes":
        n = 0
        seen = set()
        for v in range(256):
            for c in ((v, v, v), (v, 0, 0), (0, v, 0), (0, 0, v), (255, v, v), (v, 255, 255), (v, 255 - v, 128)):
                if c not in seen:
                    seen.add(c)
                    fwd_one(rec, conv, c)
                    n += 1
        for c in [(a, b, c) for a in (0, 255) for b in (0, 255) for c in (0, 255)]:
            fwd_one(rec, conv, c)
            n += 1
        rec.ev(n)
        for t in [(0.0, 0.0, h) for h in (0.0, 90.0, 359.9, 360.0)] + [(1.0, 0.0, h) for h in (0.0, 123.4, 360.0)] + \
                 [(i / 255.0, 0.0, (i * 37) % 360 * 1.0) for i in range(256)]:
            inv_one(rec, conv, t)
            rec.ev()
            rec.nontrivial(("inv", t))
    elif k == "inv_grid":
        n = 0
        nl, nc, nh = shard["nl"], shard["nc"], shard["nh"]
        for li in range(shard["l0"], nl, shard["lstep"]):
            L = li / (nl - 1)
            for ci in range(nc):
                C = 0.5 * ci / (nc - 1)
                for hi in range(nh):
                    H = 360.0 * hi / (nh - 1)
                    inv_one(rec, conv, (L, C, H))
                    n += 1
        rec.ev(n)
        rec.nt_disjoint += n
    elif k == "inv_rand":
        rnd = G.rng("c10inv", shard["seed"], shard["idx"])
        for i in range(shard["n"]):
            if i % 4 == 0:
                # gamut boundary: real colour's LCH with chroma scaled just around the boundary
                c = G.uniform(rnd)
                L, C, H = oklab.lch(oklab.lab_direct(c))
                t = (min(1.0, max(0.0, L)), C * rnd.uniform(0.9, 1.3), H)
            elif i % 4 == 1:
                t = (rnd.choice([0.0, 1.0, rnd.random()]), rnd.choice([0.0, rnd.uniform(0, 0.5)]), rnd.choice([0.0, 360.0, rnd.uniform(0, 360)]))
            elif i % 40 == 2:
                # far outside the gamut: any finite chroma, hue any number of turns (|H| <= 1e6; beyond ~5.7e307 the
                # degree->radian product itself overflows - outside the property's quantifier, see DESIGN)
                t = (rnd.choice([0.0, 1.0, rnd.random()]), rnd.choice([1.0, 37.5, 1e3, 1e50, 1e102, 1e103, 1e154, 1e200, 1e308]),
                     rnd.choice([rnd.uniform(0, 360), rnd.uniform(-1e6, 1e6), 1e6, -720.0]))
                extreme_one(rec, conv, t)
                rec.ev()
                continue
            else:
                t = (rnd.random(), rnd.uniform(0, 0.5), rnd.uniform(0, 360))
            inv_one(rec, conv, t)
            rec.ev()
            rec.nontrivial(("inv", t))
        rec.sample({"oklch": list(t), "library_rgb": list(conv[1](t)), "oracle_unrounded": [round(v, 3) for v in oklab.rgb_from_lch_clip(*t)]})
    elif k == "safe":
        rnd = G.rng("c10safe", shard["seed"], shard["idx"])
        for direction, t, cls in safe_cases(rnd, shard["n"]):
            safe_one(rec, conv, direction, t, cls)
            rec.ev()
            rec.nontrivial((direction, repr(t)))
        aliases_after_invalid(rec, conv, rnd, shard["n"] // 4)
    elif k == "side":
        side(shard, rec, lib, cv, conv)
    elif k == "threads":
        threads(shard, rec, conv)


def threads(shard, rec, conv):
    import sys
    import threading
    f, inv, fs, invs = conv
    rnd = G.rng("c10thr", shard["seed"], shard["idx"])
    nthr = 8
    work_lists = []
    for t in range(nthr):
        cols = [G.uniform(rnd) for _ in range(shard["n"])]
        work_lists.append([(c, f(c)) for c in cols])          # single-threaded reference values, taken before any thread starts
    bad = []
    counts = [0] * nthr
    old = sys.getswitchinterval()
    sys.setswitchinterval(1e-6)
    start = threading.Barrier(nthr)

    def run(ti):
        start.wait()
        for c, lch in work_lists[ti]:
            got_f = f(c)
            got = inv(lch)
            got_s = invs(lch) if invs else got
            counts[ti] += 1
            if got != c or got_s != c or got_f != lch:
                bad.append((c, lch, got_f, got, got_s))
                if len(bad) > 20:
                    return
    ths = [threading.Thread(target=run, args=(i,)) for i in range(nthr)]
    try:
        for t in ths:
            t.start()
        for t in ths:
            t.join()
    finally:
        sys.setswitchinterval(old)
    n = sum(counts)
    rec.ev(n)
    rec.count("threaded_roundtrips_checked", n)
    rec.count("roundtrip_checked", n)
    rec.count("threads_used", nthr)
    for c, lch, got_f, got, got_s in bad[:3]:
        rec.violation(f"with {nthr} threads converting different colours at once: {c} -> rgb_to_oklch {got_f} (alone {lch}) -> oklch_to_rgb {got} / safe {got_s}; "
                      f"the round trip is not lossless", {"fn": "threads", "c": list(c), "seed": shard["seed"], "idx": shard["idx"], "n": shard["n"]})


def side(shard, rec, lib, cv, conv):
    plain_f, plain_inv = conv[0], conv[1]

    def inv_post(oklch, result):
        rec.count("contract:oklch_to_rgb_safe")
        if not valid_rgb(result):
            rec.violation(f"(during optimiser run) oklch_to_rgb_safe({oklch}) = {result!r}", {"fn": "safe", "dir": "inv", "t": [repr(v) for v in oklch], "cls": "natural"})
        else:
            try:
                L, C, H = oklch
                if 0 <= L <= 1 and C >= 0 and 0 <= H <= 360 and result != plain_inv(oklch):
                    rec.violation(f"(during optimiser run) oklch_to_rgb_safe({oklch}) = {result} != plain {plain_inv(oklch)}",
                                  {"fn": "safe", "dir": "inv", "t": [repr(v) for v in oklch], "cls": "natural"})
            except Exception:
                rec.count("contract:unjudgeable")
        return True

    def fwd_post(rgb, result):
        rec.count("contract:rgb_to_oklch_safe")
        try:
            L, C, H = result
            if not (0 <= L <= 1 and C >= 0 and 0 <= H <= 360):
                rec.violation(f"(during optimiser run) rgb_to_oklch_safe({rgb}) = {result!r}", {"fn": "safe", "dir": "fwd", "t": [repr(v) for v in rgb], "cls": "natural"})
        except Exception:
            rec.count("contract:unjudgeable")
        return True

    contracts.ensure(cv, "oklch_to_rgb_safe", inv_post)
    contracts.ensure(cv, "rgb_to_oklch_safe", fwd_post)
    rec.count("contract_backend:" + contracts.BACKEND)
    rnd = G.rng("c10side", shard["seed"])
    for i in range(shard["n"]):
        g = G.below(rnd, i % 2 == 0, i % 4 < 2)
        if g:
            rec.ev()
            try:
                lib.ColorPair(g[0], g[1], large_text=(i % 2 == 0)).make_readable(mode=i % 3, very_readable=(i % 4 < 2))
            except Exception as e:
                rec.count(f"side_call_raised:{type(e).__name__}")


def replay(case):
    from cmv.lib import Lib
    from cmv.rec import Rec
    lib = Lib()
    cv = lib.mod("conversions")
    conv = tuple(getattr(cv, n, None) for n in ("rgb_to_oklch", "oklch_to_rgb", "rgb_to_oklch_safe", "oklch_to_rgb_safe"))
    rec = Rec()
    if case["fn"] == "threads":
        threads({"seed": case["seed"], "idx": case["idx"], "n": case["n"]}, rec, conv)
        for v in rec.viol:
            print("VIOLATED:", v["what"])
        print("holds" if not rec.viol else "VIOLATED")
        return not rec.viol
    if case["fn"] == "alias":
        t, v = tuple(case["invalid"]), tuple(case["valid"])
        try:
            conv[2](t)
        except Exception:
            pass
        a, b = conv[2](v), conv[0](v)
        print(f"after rgb_to_oklch_safe({t}): safe({v}) = {a}, plain = {b}")
        return a == b
    if case["fn"] == "fwd":
        fwd_one(rec, conv, tuple(case["c"]))
    elif case["fn"] == "inv":
        inv_one(rec, conv, tuple(case["t"]))
    else:
        t = tuple(float(v) if ("." in v or "n" in v or "e" in v) else int(v) for v in case["t"])
        safe_one(rec, conv, case["dir"], t, case["cls"] if case["cls"] != "natural" else "class1")
    for v in rec.viol:
        print("VIOLATED:", v["what"])
    if not rec.viol:
        print("holds for", case)
    return not rec.viol
