"""C05 - luminance, contrast ratio and readability labels are exactly WCAG 2."""
import math

from cmv import contracts
from cmv import pairwork as PW
from cmv.gen import colors as G
from cmv.gen import spellings as SP
from cmv.oracles import wcag

ID = "C05"
LEVEL = "exploration"
ORACLES = ("wcag",)
RULE = ("luminance: all 16,777,216 colours (both tiers) against a 50-digit-decimal reference table; ratio: all 65,536 grey x grey pairs, "
        "random + near-threshold pairs, every colour vs black and white (thorough: all 2^24, quick: 2^20 stratified); symmetry, "
        "range, ==1 on equal, 21 only for black/white; labels: each threshold float with 5 adjacent representable floats each way x "
        "large flag + random ratios; get_wcag_level / is_readable / bulk status on pairs, is_readable also with the pair written in every accepted spelling (translucent text "
        "whose displayed colour is the pair's); luminance+ratio contracts also fire on every "
        "candidate the optimiser evaluates in a side workload. Non-trivial = every distinct colour / pair / float judged (none is skipped).")
ASSUMPTIONS = ["oracle table computed with decimal at 50 digits; WCAG 0.03928 vs sRGB 0.04045 breakpoints select the same branch for all 8-bit values (asserted in self-test)"]
MUST_OBSERVE = {"any": ["lum_checked", "ratio_checked", "label_checked", "pair_label_checked", "bulk_status_after_fix_checked"]}
EXHAUSTIVE = {"quick": ["luminance over all 2^24 colours", "ratio over all 256x256 grey pairs"],
              "thorough": ["luminance over all 2^24 colours", "ratio over all 256x256 grey pairs", "ratio of every colour vs black and vs white"]}
LUM_TOL = 1e-12
REL_TOL = 1e-12


def shards(tier, seed):
    out = [{"kind": "lum", "r0": i * 16, "r1": i * 16 + 16} for i in range(16)]
    out += [{"kind": "grey", "a0": i * 32, "a1": i * 32 + 32} for i in range(8)]
    if tier == "thorough":
        out += [{"kind": "bw", "r0": i * 8, "r1": i * 8 + 8, "step": 1} for i in range(32)]
        out += [{"kind": "pairs", "seed": seed, "idx": i, "n": 120000} for i in range(16)]
    else:
        out += [{"kind": "bw", "r0": i * 32, "r1": i * 32 + 32, "step": 4} for i in range(8)]
        out += [{"kind": "pairs", "seed": seed, "idx": i, "n": 12000} for i in range(8)]
    out.append({"kind": "labels", "seed": seed})
    out.append({"kind": "side", "seed": seed, "n": 300 if tier == "thorough" else 80})
    return out


def check_ratio(rec, f, a, b, where="ratio"):
    try:
        got = f(a, b)
        back = f(b, a)
    except Exception as e:
        rec.violation(f"calculate_contrast_ratio({a},{b}) raised {type(e).__name__}: {e}", {"fn": "ratio", "a": list(a), "b": list(b)})
        return
    want = wcag.ratio(a, b)
    rec.count("ratio_checked")
    bad = None
    if not isinstance(got, float) or math.isnan(got):
        bad = f"not a finite float: {got!r}"
    elif abs(got - want) > REL_TOL * want:
        bad = f"{got!r} != WCAG {want!r}"
    elif got != back:
        bad = f"asymmetric: ratio(a,b)={got!r} ratio(b,a)={back!r}"
    elif a == b and got != 1.0:
        bad = f"equal colours give {got!r}"
    elif not (1.0 <= got <= 21.0 * (1 + 1e-12)):
        bad = f"out of [1,21]: {got!r}"
    elif got >= 21.0 * (1 - 1e-12) and {tuple(a), tuple(b)} != {(0, 0, 0), (255, 255, 255)}:
        bad = f"21 for a pair other than black/white: {got!r}"
    else:
        rec.maxi("max_ratio_rel_err", abs(got - want) / want)
    if bad:
        rec.violation(f"calculate_contrast_ratio({a},{b}): {bad}", {"fn": "ratio", "a": list(a), "b": list(b)})


def work(shard, rec):
    from cmv.lib import Lib
    lib = Lib()
    con = lib.mod("contrast")
    lum = getattr(con, "calculate_relative_luminance", None)
    ratio = getattr(con, "calculate_contrast_ratio", None)
    k = shard["kind"]
    if lum is None or ratio is None:
        rec.inconc("cm_colors.core.contrast lacks calculate_relative_luminance / calculate_contrast_ratio")
        return
    if k == "lum":
        ol = wcag.luminance
        worst = 0.0
        n = 0
        for r in range(shard["r0"], shard["r1"]):
            for g in range(256):
                for b in range(256):
                    c = (r, g, b)
                    d = abs(lum(c) - ol(c))
                    if d > worst:
                        worst = d
                        if d > LUM_TOL:
                            rec.violation(f"calculate_relative_luminance({c}) = {lum(c)!r}, WCAG = {ol(c)!r}", {"fn": "lum", "a": list(c)})
                    n += 1
        rec.ev(n)
        rec.count("lum_checked", n)
        rec.nt_disjoint += n
        rec.maxi("max_lum_abs_err", worst)
        rec.sample({"colour": [shard["r0"], 77, 200], "library_luminance": lum((shard["r0"], 77, 200)), "oracle": wcag.luminance((shard["r0"], 77, 200))})
    elif k == "grey":
        n = 0
        for a in range(shard["a0"], shard["a1"]):
            for b in range(256):
                check_ratio(rec, ratio, (a, a, a), (b, b, b))
                n += 1
        rec.ev(n)
        rec.nt_disjoint += n
    elif k == "bw":
        n = 0
        st = shard["step"]
        for r in range(shard["r0"], shard["r1"]):
            for g in range(r % st, 256, st) if st > 1 else range(256):
                for b in range(256):
                    c = (r, g, b)
                    check_ratio(rec, ratio, c, (0, 0, 0))
                    check_ratio(rec, ratio, (255, 255, 255), c)
                    n += 2
        rec.ev(n)
        rec.count("bw_checked", n)
        rec.nt_disjoint += n
    elif k == "pairs":
        rnd = G.rng("c05pairs", shard["seed"], shard["idx"])
        reused_bg, reused_t = [0, 0, 0], [0, 0, 0]      # caller-owned lists, overwritten in place between calls
        for i in range(shard["n"]):
            if i % 7 == 0:
                # the same list objects, mutated in place (e.g. a ramp sweep): the answer must follow the contents
                reused_bg[:] = G.uniform(rnd) if i % 14 else [min(255, reused_bg[0] + 5)] * 3
                reused_t[:] = G.uniform(rnd) if i % 21 else reused_t
                a, b = tuple(reused_t), tuple(reused_bg)
                try:
                    got, gl = ratio(reused_t, reused_bg), lum(reused_bg)
                except Exception as e:
                    rec.violation(f"calculate_contrast_ratio on list arguments raised {type(e).__name__}: {e}", {"fn": "ratio", "a": list(a), "b": list(b)})
                    continue
                rec.count("reused_list_arguments")
                # ... and again immediately, after overwriting the very same objects (nothing else called in between)
                for which in (0, 1, 2):
                    if which != 1:
                        reused_bg[:] = [min(255, max(0, v + rnd.choice([-40, -7, 9, 60]))) for v in reused_bg]
                    if which != 0:
                        reused_t[:] = [min(255, max(0, v + rnd.choice([-50, -5, 11, 70]))) for v in reused_t]
                    a2, b2 = tuple(reused_t), tuple(reused_bg)
                    g2 = ratio(reused_t, reused_bg)
                    rec.count("reused_list_arguments")
                    if abs(g2 - wcag.ratio(a2, b2)) > REL_TOL * wcag.ratio(a2, b2):
                        rec.violation(f"calculate_contrast_ratio({list(a2)}, {list(b2)}) = {g2!r} (WCAG {wcag.ratio(a2, b2)!r}) right after a call with the same "
                                      f"list objects holding other values", {"fn": "ratio", "a": list(a2), "b": list(b2)})
                if abs(got - wcag.ratio(a, b)) > REL_TOL * wcag.ratio(a, b) or abs(gl - wcag.luminance(b)) > LUM_TOL:
                    rec.violation(f"calculate_contrast_ratio({list(a)}, {list(b)}) = {got!r} (WCAG {wcag.ratio(a, b)!r}) when the same list objects are reused and "
                                  f"overwritten in place between calls", {"fn": "ratio", "a": list(a), "b": list(b)})
                continue
            if i % 10 == 0:
                g = G.near_threshold(rnd, band=0.002)
                if not g:
                    continue
                a, b = g[0], g[1]
            elif i % 10 == 1:
                a = G.uniform(rnd)
                b = a
            else:
                a, b = G.uniform(rnd), G.uniform(rnd)
            check_ratio(rec, ratio, a, b)
            rec.ev()
            rec.nontrivial((a, b))
        a, b = G.uniform(rnd), G.uniform(rnd)
        rec.sample({"a": list(a), "b": list(b), "library_ratio": ratio(a, b), "oracle_ratio": wcag.ratio(a, b)})
    elif k == "labels":
        labels(shard, rec, lib, con)
        bulk_status_after_fixing(shard, rec, lib)
        bulk_mixed_shapes(shard, rec, lib)
    elif k == "side":
        side(shard, rec, lib, con)


def labels(shard, rec, lib, con):
    gcl = getattr(con, "get_contrast_level", None)
    gwl = getattr(con, "get_wcag_level", None)
    rnd = G.rng("c05labels", shard["seed"])
    if gcl is not None:
        vals = []
        for t in (3.0, 4.5, 7.0):
            x = t
            vals.append(x)
            up = dn = t
            for _ in range(5):
                up = math.nextafter(up, math.inf)
                dn = math.nextafter(dn, -math.inf)
                vals += [up, dn]
        vals += [1.0, 21.0, 0.5, 22.0, 2.999, 4.4999, 6.9999]
        vals += [rnd.uniform(0.5, 22) for _ in range(20000)]
        for v in vals:
            for large in (False, True):
                rec.ev()
                rec.count("label_checked")
                rec.nontrivial(("lvl", v, large))
                try:
                    got = gcl(v, large)
                except Exception as e:
                    rec.violation(f"get_contrast_level({v!r},{large}) raised {type(e).__name__}", {"fn": "level", "v": v, "large": large})
                    continue
                want = wcag.level(v, large)
                if got != want:
                    rec.violation(f"get_contrast_level({v!r}, large={large}) = {got!r}, WCAG = {want!r}", {"fn": "level", "v": v, "large": large})
        rec.sample({"get_contrast_level(4.5)": gcl(4.5), "get_contrast_level(nextafter(4.5,-inf))": gcl(math.nextafter(4.5, -math.inf)),
                    "get_contrast_level(3.0, large)": gcl(3.0, True)})
    else:
        rec.count("skipped:get_contrast_level absent")
    # pair-level labels
    READ = {"AAA": "Very Readable", "AA": "Readable", "FAIL": "Not Readable"}
    for i in range(6000):
        if i % 3 == 0:
            g = G.near_threshold(rnd, band=0.004)
            if not g:
                continue
            t, b = g[0], g[1]
        elif i % 3 == 1:
            g = G.hair(rnd)
            if not g:
                continue
            t, b = g[i % 2], g[2]
        else:
            t, b = G.uniform(rnd), G.uniform(rnd)
        for large in (False, True):
            r = wcag.ratio(t, b)
            wants = {wcag.level(r, large)}
            for th in (3.0, 4.5, 7.0):
                if abs(r - th) <= wcag.RATIO_BAND * th:
                    wants |= {wcag.level(th - 1e-6, large), wcag.level(th, large)}
            rec.ev()
            rec.count("pair_label_checked")
            rec.nontrivial(("pair", t, b, large))
            case = {"fn": "pair_label", "t": list(t), "b": list(b), "large": large}
            try:
                if gwl is not None:
                    got = gwl(t, b, large)
                    if got not in wants:
                        rec.violation(f"get_wcag_level({t},{b},large={large}) = {got!r}; oracle ratio {r:.6f} -> {sorted(wants)}", case)
                got = lib.ColorPair(t, b, large_text=large).is_readable
                if got not in {READ[w] for w in wants}:
                    rec.violation(f"ColorPair({t},{b},large_text={large}).is_readable = {got!r}; oracle ratio {r:.6f} -> {sorted(wants)}", case)
                # the same pair in other accepted spellings, translucent ones included (the text as it is seen over this
                # background is exactly t): the label is that of the pair displayed
                tr = PW.translucent_seen_as(rnd, t, b) if rnd.random() < 0.5 else None
                if tr is not None:
                    tsp, tk = tr[0], tr[1]
                else:
                    tk, tsp = rnd.choice(SP.available(t))
                bk, bsp = rnd.choice(SP.available(b))
                sp_pair = lib.ColorPair(tsp, bsp, large_text=large)
                if sp_pair.is_valid and tuple(sp_pair.bg.rgb) == tuple(b) and (tr is None or all(abs(x - y) <= 1.5 for x, y in zip(sp_pair.text.rgb, t))):
                    rs = r if tuple(sp_pair.text.rgb) == tuple(t) else wcag.ratio(tuple(sp_pair.text.rgb), b)
                    wants_s = {wcag.level(rs, large)}
                    for th in (3.0, 4.5, 7.0):
                        if abs(rs - th) <= wcag.RATIO_BAND * th:
                            wants_s |= {wcag.level(th - 1e-6, large), wcag.level(th, large)}
                    rec.count("spelled_pair_label_checked")
                    rec.count("spelled_text_kind:" + tk)
                    got = sp_pair.is_readable
                    if got not in {READ[w] for w in wants_s}:
                        rec.violation(f"ColorPair({tsp!r},{bsp!r},large_text={large}).is_readable = {got!r}; the pair displayed is {t} on {b}, "
                                      f"oracle ratio {rs:.6f} -> {sorted(wants_s)}", dict(case, text=SP.jsonable(tsp), tk=tk, bg=SP.jsonable(bsp), bk=bk))
                else:
                    rec.count("spelled_pair_not_judged(C07/C13)")
                    if tr is not None and sp_pair.is_valid and tuple(sp_pair.bg.rgb) == tuple(b):
                        # composite further than C13's 1.5 units from the blend over this pair's background: the label given is
                        # that of some other pair; judged here only when the two pairs' labels differ beyond doubt
                        rs = wcag.ratio(tuple(sp_pair.text.rgb), b)
                        far = all(abs(r - th) > wcag.RATIO_BAND * th for th in (3.0, 4.5, 7.0))
                        if far and sp_pair.is_readable not in {READ[w] for w in wants}:
                            rec.violation(f"ColorPair({tsp!r},{bsp!r},large_text={large}).is_readable = {sp_pair.is_readable!r}; the pair displayed is {t} on {b}, "
                                          f"oracle ratio {r:.6f} -> {sorted(wants)} (the library judged composite {sp_pair.text.rgb})",
                                          dict(case, text=SP.jsonable(tsp), tk=tk, bg=SP.jsonable(bsp), bk=bk))
                if r >= wcag.minimum(large, False):  # already readable: bulk returns it unchanged, status labels it
                    res = lib.make_readable_bulk([(t, b, large)])
                    st = res[0][1]
                    if st not in {wcag.LABEL[w] for w in wants}:
                        rec.violation(f"make_readable_bulk([({t},{b},{large})]) status {st!r}; oracle ratio {r:.6f} -> {sorted(wants)}", case)
                    rec.count("bulk_status_checked")
            except Exception as e:
                rec.violation(f"label query raised {type(e).__name__}: {e}", case)


def bulk_status_after_fixing(shard, rec, lib):
    """Bulk status label for pairs that need fixing, under every mode / very_readable combination, including fixes that
    fail: the label must be the WCAG level of the colour that is *returned*, at that text size."""
    from cmv import pairwork as PW
    rnd = G.rng("c05bulkfix", shard["seed"])
    for i in range(shard.get("nfix", 900)):
        large, vr, mode = bool(i & 1), bool(i & 2), (i // 4) % 3
        g = G.below(rnd, large, vr, lo=0.3) if i % 3 else G.below(rnd, large, vr, lo=0.8)
        if not g:
            continue
        t, b = g
        case = {"fn": "bulk_fix", "t": list(t), "b": list(b), "large": large, "vr": vr, "mode": mode}
        rec.ev()
        try:
            col, st = lib.make_readable_bulk([(t, b, large)], mode=mode, very_readable=vr)[0]
        except Exception as e:
            rec.violation(f"make_readable_bulk([({t},{b},{large})], mode={mode}, very_readable={vr}) raised {type(e).__name__}: {e}", case)
            continue
        rb = PW.readback(col)
        if rb is None:
            rec.count("bulk_fix_unreadable(C06)")
            continue
        r = wcag.ratio(rb, b)
        wants = {wcag.LABEL[wcag.level(r, large)]}
        for th in (3.0, 4.5, 7.0):
            if abs(r - th) <= wcag.RATIO_BAND * th:
                wants |= {wcag.LABEL[wcag.level(th, large)], wcag.LABEL[wcag.level(th - 1e-6, large)]}
        rec.count("bulk_status_after_fix_checked")
        rec.count("bulk_fix_outcome:" + ("met" if r >= wcag.minimum(large, vr) else "not_met"))
        rec.nontrivial(("bulkfix", t, b, large, vr, mode))
        if st not in wants:
            rec.violation(f"make_readable_bulk([({t},{b},{large})], mode={mode}, very_readable={vr}) -> ({col!r}, {st!r}) but the returned colour's ratio is "
                          f"{r:.4f} -> {sorted(wants)}", case)


def bulk_mixed_shapes(shard, rec, lib):
    """Status labels inside lists that mix 2- and 3-element entries: every entry is labelled at its *own* text size."""
    from cmv import pairwork as PW
    rnd = G.rng("c05bulkmixed", shard["seed"])
    for i in range(300):
        entries, meta = [], []
        for j in range(rnd.choice([2, 3, 4])):
            large = rnd.random() < 0.5
            g = G.near_threshold(rnd, thr=rnd.choice([3.0, 4.5]), band=0.12)
            if not g:
                continue
            t, b = g[0], g[1]
            if large or rnd.random() < 0.3:
                entries.append((t, b, large))
            else:
                entries.append((t, b))
                large = False
            meta.append((t, b, large))
        mode, vr = i % 3, bool(i & 1)
        case = {"fn": "bulk_mixed", "entries": [repr(e) for e in entries], "mode": mode, "vr": vr}
        rec.ev()
        try:
            res = lib.make_readable_bulk(entries, mode=mode, very_readable=vr)
        except Exception as e:
            rec.violation(f"make_readable_bulk({entries!r}) raised {type(e).__name__}: {e}", case)
            continue
        for (col, st), (t, b, large), e in zip(res, meta, entries):
            rb = PW.readback(col)
            if rb is None:
                continue
            r = wcag.ratio(rb, b)
            wants = {wcag.LABEL[wcag.level(r, large)]}
            for th in (3.0, 4.5, 7.0):
                if abs(r - th) <= wcag.RATIO_BAND * th:
                    wants |= {wcag.LABEL[wcag.level(th, large)], wcag.LABEL[wcag.level(th - 1e-6, large)]}
            rec.count("bulk_mixed_status_checked")
            if st not in wants:
                rec.violation(f"make_readable_bulk({entries!r}, mode={mode}, very_readable={vr}): entry {e!r} -> ({col!r}, {st!r}); its ratio {r:.4f} at "
                              f"{'large' if large else 'normal'} size -> {sorted(wants)}", case)
        rec.nontrivial(("bulkmixed", repr(entries), mode, vr))


def side(shard, rec, lib, con):
    """Contracts on luminance / ratio, live while the optimiser runs."""
    def lum_post(rgb, result):
        rec.count("contract:calculate_relative_luminance")
        try:
            c = tuple(rgb)
            if all(type(v) is int and 0 <= v <= 255 for v in c) and abs(result - wcag.luminance(c)) > LUM_TOL:
                rec.violation(f"(during optimiser run) calculate_relative_luminance({c}) = {result!r}", {"fn": "lum", "a": list(c)})
        except Exception:
            rec.count("contract:unjudgeable")
        return True

    def ratio_post(text_rgb, bg_rgb, result):
        rec.count("contract:calculate_contrast_ratio")
        try:
            a, b = tuple(text_rgb), tuple(bg_rgb)
            if all(type(v) is int and 0 <= v <= 255 for v in a + b):
                want = wcag.ratio(a, b)
                if abs(result - want) > REL_TOL * want:
                    rec.violation(f"(during optimiser run) calculate_contrast_ratio({a},{b}) = {result!r}, WCAG {want!r}", {"fn": "ratio", "a": list(a), "b": list(b)})
        except Exception:
            rec.count("contract:unjudgeable")
        return True

    contracts.ensure(con, "calculate_relative_luminance", lum_post)
    contracts.ensure(con, "calculate_contrast_ratio", ratio_post)
    rec.count("contract_backend:" + contracts.BACKEND)
    rnd = G.rng("c05side", shard["seed"])
    for i in range(shard["n"]):
        g = G.below(rnd, i % 2 == 0, i % 4 < 2)
        if not g:
            continue
        rec.ev()
        try:
            lib.ColorPair(g[0], g[1], large_text=(i % 2 == 0)).make_readable(mode=i % 3, very_readable=(i % 4 < 2))
        except Exception as e:
            rec.count(f"side_call_raised:{type(e).__name__}")


def replay(case):
    from cmv.lib import Lib
    lib = Lib()
    con = lib.mod("contrast")
    if case["fn"] == "lum":
        c = tuple(case["a"])
        got, want = con.calculate_relative_luminance(c), wcag.luminance(c)
        print(f"luminance{c}: library {got!r} oracle {want!r}")
        return abs(got - want) <= LUM_TOL
    if case["fn"] == "ratio":
        a, b = tuple(case["a"]), tuple(case["b"])
        got, want = con.calculate_contrast_ratio(a, b), wcag.ratio(a, b)
        print(f"ratio{a}{b}: library {got!r} (reversed {con.calculate_contrast_ratio(b, a)!r}) oracle {want!r}")
        return abs(got - want) <= REL_TOL * want and got == con.calculate_contrast_ratio(b, a)
    if case["fn"] == "level":
        got, want = con.get_contrast_level(case["v"], case["large"]), wcag.level(case["v"], case["large"])
        print(f"get_contrast_level({case['v']!r},{case['large']}): library {got!r} oracle {want!r}")
        return got == want
    if case["fn"] == "bulk_mixed":
        entries = [eval(e) for e in case["entries"]]
        print("bulk:", lib.make_readable_bulk(entries, mode=case["mode"], very_readable=case["vr"]))
        return True
    t, b = tuple(case["t"]), tuple(case["b"])
    if case["fn"] == "bulk_fix":
        from cmv import pairwork as PW
        col, st = lib.make_readable_bulk([(t, b, case["large"])], mode=case["mode"], very_readable=case["vr"])[0]
        r = wcag.ratio(PW.readback(col), b)
        print(f"bulk -> ({col!r}, {st!r}); returned colour's ratio {r:.4f} -> {wcag.LABEL[wcag.level(r, case['large'])]!r}")
        return st == wcag.LABEL[wcag.level(r, case["large"])]
    r = wcag.ratio(t, b)
    if "tk" in case:
        tsp, bsp = SP.from_json(case["text"], case["tk"]), SP.from_json(case["bg"], case["bk"])
        pr = lib.ColorPair(tsp, bsp, large_text=case["large"])
        READ = {"AAA": "Very Readable", "AA": "Readable", "FAIL": "Not Readable"}
        print(f"ColorPair({tsp!r},{bsp!r},large_text={case['large']}): library sees {pr.text.rgb} on {pr.bg.rgb}, is_readable {pr.is_readable!r}; "
              f"displayed pair {t} on {b}: oracle ratio {r}, label {READ[wcag.level(r, case['large'])]!r}")
        return pr.is_readable == READ[wcag.level(r, case["large"])]
    print(f"pair {t} on {b} large={case['large']}: oracle ratio {r}, level {wcag.level(r, case['large'])}; "
          f"library get_wcag_level {con.get_wcag_level(t, b, case['large'])}, is_readable {lib.ColorPair(t, b, large_text=case['large']).is_readable}")
    return con.get_wcag_level(t, b, case["large"]) == wcag.level(r, case["large"])
