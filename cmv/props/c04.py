"""C04 - change is bounded: strict mode within dE 5.0, each search step
within the tolerance it was given, modes 1/2 only chain such steps."""
import threading

from cmv import pairwork as PW
from cmv.gen import colors as G
from cmv.lib import patch_everywhere
from cmv.oracles import wcag, cielab, ciede2000

ID = "C04"
LEVEL = "exploration"
ORACLES = ("wcag", "cielab", "ciede2000", "csscolor")
RULE = ("(a) make_readable(mode=0) over the C01 pair classes x 4 (large,very_readable) settings: own CIEDE2000(original, returned) <= 5.0+0.05; "
        "(b) binary_search_lightness / gradient_descent_oklch / generate_accessible_color called directly with arbitrary (text, bg, tolerance or "
        "schedule of 0-6 entries sorted or not, target 1..22): result is None / the input, or three ints 0..255 within max(tolerance)+0.05 of the "
        "input; (c) every call of the multi-phase search made inside mode-1/2 runs is recorded by attribute replacement: chain starts at the "
        "original, each step starts from the original or the previous output, each output within its schedule's maximum, the colour finally "
        "returned is the original or a step output; strict mode is also asked through make_readable_bulk (mode=0 positional / keyword). Non-trivial = result differs from the input; distinct = distinct argument tuple.")
ASSUMPTIONS = ["own CIEDE2000 (oracles cielab+ciede2000, self-tested on the 34 published pairs); 0.05 slack = the agreement C11 grants the library's measurement",
               "routine names are auxiliary observation points: an absent attribute skips that sub-check (counted), API clause (a) still decides"]
MUST_OBSERVE = {"any": ["strict_judged", "cli_strict_cards_judged"]}   # routine / chain sub-checks are auxiliary (skipped and counted when a name is absent)
DE_SLACK = 0.05
SIZES = {"quick": dict(strict=1600, routine=1400, chains=500), "thorough": dict(strict=16000, routine=14000, chains=5000)}


def own_de(a, b):
    return ciede2000.de(cielab.lab(tuple(a)), cielab.lab(tuple(b)))


def shards(tier, seed):
    z = SIZES[tier]
    out = []
    cases = PW.build_cases(seed, "c04", z["strict"], per_pair_configs=1, translucent_every=9)
    for i, c in enumerate(cases):
        c["cfgs"] = [[0, lg, vr] for lg in (False, True) for vr in (False, True)]
        if i % 2 == 0:
            # history: default / relaxed mode calls in the same process *before* the strict ones (their results are
            # not judged here); a schedule or bound that leaks from one mode into another shows up as a strict-mode excess
            c["cfgs"] = [[2, bool(i & 2), bool(i & 4)], [1, bool(i & 4), bool(i & 2)]] + c["cfgs"]
    out += [{"kind": "strict", "cases": c} for c in PW.chunk(cases, 16)]
    out += [{"kind": "routines", "seed": seed, "idx": i, "n": z["routine"] // 16} for i in range(16)]
    out += [{"kind": "chains", "seed": seed, "idx": i, "n": z["chains"] // 16} for i in range(16)]
    out += [{"kind": "cli", "seed": seed, "idx": i, "n": 6 if tier == "quick" else 60} for i in range(4)]
    return out


def judge_strict(case, obs, rec):
    orig = obs["orig"]
    for (mode, large, vr), out in obs["res"].items():
        if mode != 0:
            rec.count("history_calls_before_strict")
            continue
        cs = {"fn": "strict", **{k: case[k] for k in ("text", "bg", "tk", "bk", "t", "b")}, "large": large, "vr": vr, "observed": repr(out)}
        if out[0] == "EXC":
            rec.violation(f"make_readable(mode=0) raised {out[1]}", cs)
            continue
        rb = PW.readback(out[0])
        if rb is None:
            rec.count("unreadable_result(C06)")
            continue
        d = own_de(orig, rb)
        rec.count("strict_judged")
        rec.maxi("max_strict_dE", round(d, 4))
        if tuple(rb) != tuple(orig):
            rec.nontrivial((case["t"], case["b"], large, vr))
        if d > 5.0 + DE_SLACK:
            rec.violation(f"text={case['text']!r} bg={case['bg']!r} large={large} vr={vr}: strict mode returned {out[0]!r}, dE {d:.3f} > 5.0 from the original {orig}", cs)
        if len(rec.samples) < 2 and tuple(rb) != tuple(orig):
            rec.sample({"text": case["text"], "bg": case["bg"], "large": large, "vr": vr, "mode": 0, "returned": out[0], "own_dE": round(d, 3)})


def rand_tol(rnd):
    return rnd.choice([0, 0.1, 0.5, 0.8, 1.0, 1.5, 2.0, 2.5, 3.0, 5.0, 8.0, 15.0, 50.0, round(rnd.uniform(0, 20), 3)])


def check_result(rec, name, args_desc, text, res, maxtol, case):
    rec.count("routine_judged:" + name)
    if res is None:
        rec.count("routine_none:" + name)
        return
    if not (type(res) is tuple and len(res) == 3 and all(type(v) is int and 0 <= v <= 255 for v in res)):
        rec.violation(f"{name}({args_desc}) = {res!r}: not None and not three ints in 0..255", case)
        return
    if tuple(res) == tuple(text):
        return
    d = own_de(text, res)
    rec.nontrivial((name, args_desc))
    rec.maxi("max_over_tolerance:" + name, round(d - maxtol, 4))
    if d > maxtol + DE_SLACK:
        rec.violation(f"{name}({args_desc}) = {res}: dE {d:.3f} from its input exceeds the largest tolerance given ({maxtol})", case)


def routines(shard, rec, lib):
    opt = lib.mod("optimisation")
    bsl = getattr(opt, "binary_search_lightness", None)
    gdo = getattr(opt, "gradient_descent_oklch", None)
    gac = getattr(opt, "generate_accessible_color", None)
    for nm, f in (("binary_search_lightness", bsl), ("gradient_descent_oklch", gdo), ("generate_accessible_color", gac)):
        if f is None:
            rec.count("skipped:" + nm + " absent")
    rnd = G.rng("c04routines", shard["seed"], shard["idx"])
    hard = [("#ffff00", "#ffffff"), ((130, 183, 14), (238, 127, 26)), ("#eeeeee", "#ffffff"), ((128, 128, 128), (120, 120, 120))]
    for i in range(shard["n"]):
        if i % 40 == 0:
            # history: relaxed / default mode runs on pairs they cannot repair, then the routines with their *default* arguments
            t0, b0 = hard[(i // 40) % len(hard)]
            try:
                lib.ColorPair(t0, b0).make_readable(mode=2, very_readable=bool(i & 64))
                lib.ColorPair(t0, b0).make_readable(mode=1)
            except Exception:
                rec.count("history_call_raised")
            rec.count("history_calls_before_routines", 2)
        if i % 3 == 0:
            g = G.below(rnd, rnd.random() < 0.5, rnd.random() < 0.5, lo=0.2)
            t, b = g if g else (G.uniform(rnd), G.uniform(rnd))
        elif i % 3 == 1:
            b = G.midtone_bg(rnd)
            t = G.lerp(b, G.uniform(rnd), rnd.uniform(0.05, 0.5))
        else:
            t, b = G.uniform(rnd), G.uniform(rnd)
        if i % 5 == 4:
            # caller-owned list objects, overwritten in place with a nearby shade between calls
            if "reused" not in rec.maxima:
                rec.maxima["reused"] = 1
                routines._t, routines._b = list(t), list(b)
            else:
                routines._t[:] = [min(255, max(0, v + rnd.randrange(-9, 10))) for v in routines._t] if i % 10 == 4 else list(t)
                routines._b[:] = list(b) if i % 15 == 4 else routines._b
            t_arg, b_arg = routines._t, routines._b
            t, b = tuple(t_arg), tuple(b_arg)
            rec.count("reused_list_arguments")
        else:
            t_arg, b_arg = t, b
        target = rnd.choice([1.0, 3.0, 4.5, 7.0, 21.0, 22.0, round(rnd.uniform(1, 22), 2)])
        tol = rand_tol(rnd)
        large = rnd.random() < 0.5
        rec.ev()
        for nm, f in (("binary_search_lightness", bsl), ("gradient_descent_oklch", gdo)):
            if f is None:
                continue
            desc = f"{t}, {b}, {tol}, {target}, {large}"
            case = {"fn": nm, "t": list(t), "b": list(b), "tol": tol, "target": target, "large": large}
            try:
                res = f(t_arg, b_arg, tol, target, large)
                res = tuple(res) if isinstance(res, list) else res
            except Exception as e:
                rec.violation(f"{nm}({desc}) raised {type(e).__name__}: {e}", case)
                continue
            check_result(rec, nm, desc, t, res, tol, case)
        if t_arg is not t and bsl is not None:
            # back to back: the same list object, overwritten in place with a nearby shade, nothing else called in between
            for _rep in range(2):
                t_arg[:] = [min(255, max(0, v + rnd.randrange(-14, 15))) for v in t_arg]
                t2 = tuple(t_arg)
                for nm, f in (("binary_search_lightness", bsl), ("gradient_descent_oklch", gdo)):
                    if f is None:
                        continue
                    case = {"fn": nm, "t": list(t2), "b": list(b), "tol": tol, "target": target, "large": large}
                    try:
                        res = f(t_arg, b_arg, tol, target, large)
                    except Exception as e:
                        rec.violation(f"{nm}({t2}, ...) raised {type(e).__name__}: {e}", case)
                        continue
                    check_result(rec, nm, f"{t2}, {b}, {tol}, {target} [same list object as the previous call, overwritten in place]", t2,
                                 tuple(res) if isinstance(res, list) else res, tol, case)
            t = tuple(t_arg)
        if gac is not None:
            k = rnd.randrange(0, 7)
            if rnd.random() < 0.15:
                sched = None
                mx = 5.0
            else:
                sched = [rand_tol(rnd) for _ in range(k)]
                if rnd.random() < 0.5:
                    sched.sort()
                mx = max(sched) if sched else 0.0
            mn = rnd.choice([None, 3.0, 4.5, 7.0, target])
            desc = f"{t}, {b}, large={large}, target_contrast={target}, min_contrast={mn}, delta_e_sequence={sched}"
            case = {"fn": "generate_accessible_color", "t": list(t), "b": list(b), "large": large, "target": target, "min": mn, "sched": sched}
            try:
                res = gac(t_arg, b_arg, large=large, target_contrast=target, min_contrast=mn, delta_e_sequence=None if sched is None else list(sched))
                res = tuple(res) if isinstance(res, list) else res
            except Exception as e:
                rec.violation(f"generate_accessible_color({desc}) raised {type(e).__name__}: {e}", case)
                continue
            if res is None:
                rec.violation(f"generate_accessible_color({desc}) returned None (must return a colour)", case)
                continue
            check_result(rec, "generate_accessible_color", desc, t, res, mx, case)
            if i == 0:
                rec.sample({"call": f"generate_accessible_color({desc})", "result": list(res), "own_dE": round(own_de(t, res), 3), "max_tolerance": mx})


class Trace:
    def __init__(self):
        self.steps = []
        self.lock = threading.Lock()


def chains(shard, rec, lib):
    opt = lib.mod("optimisation")
    gac = getattr(opt, "generate_accessible_color", None)
    if gac is None:
        rec.count("skipped:chain trace (generate_accessible_color absent)")
        rec.count("chain_steps_observed", 0)
        return
    tr = Trace()

    def recording(text_rgb, bg_rgb, large=False, target_contrast=None, min_contrast=None, delta_e_sequence=None):
        res = gac(text_rgb, bg_rgb, large=large, target_contrast=target_contrast, min_contrast=min_contrast, delta_e_sequence=delta_e_sequence)
        with tr.lock:
            tr.steps.append((tuple(text_rgb), None if delta_e_sequence is None else list(delta_e_sequence), res))
        return res

    n_bound = patch_everywhere(gac, recording)
    rec.count("chain_bindings_replaced", n_bound)
    rnd = G.rng("c04chains", shard["seed"], shard["idx"])
    try:
        for i in range(shard["n"]):
            large, vr = rnd.random() < 0.4, rnd.random() < 0.5
            g = G.below(rnd, large, vr, lo=0.25, hi=0.85)
            if not g:
                continue
            t, b = g
            mode = 1 + (i % 2)
            tr.steps = []
            rec.ev()
            case = {"fn": "chain", "t": list(t), "b": list(b), "large": large, "vr": vr, "mode": mode}
            try:
                colour, success = lib.ColorPair(t, b, large_text=large).make_readable(mode=mode, very_readable=vr)
            except Exception as e:
                rec.violation(f"make_readable raised {type(e).__name__}: {e}", case)
                continue
            steps = list(tr.steps)
            rec.count("chain_steps_observed", len(steps))
            rec.count("chains_judged")
            rec.count(f"chain_len:{min(len(steps), 12)}")
            if len(steps) >= 2:
                rec.nontrivial((t, b, large, vr, mode))
            outs = {tuple(t)}
            prev = tuple(t)
            bad = None
            for k, (inp, sched, out) in enumerate(steps):
                mx = 5.0 if sched is None else (max(sched) if sched else 0.0)
                if k == 0 and inp != tuple(t):
                    bad = f"first step starts from {inp}, not from the original {t}"
                elif inp != tuple(t) and inp != prev:
                    bad = f"step {k} starts from {inp}, which is neither the original nor the previous output {prev}"
                elif not (type(out) is tuple and len(out) == 3 and all(type(v) is int and 0 <= v <= 255 for v in out)):
                    bad = f"step {k} returned {out!r}"
                elif own_de(inp, out) > mx + DE_SLACK:
                    bad = f"step {k}: {inp} -> {out} is dE {own_de(inp, out):.3f} > schedule maximum {mx}"
                if bad:
                    break
                prev = tuple(out)
                outs.add(prev)
            if not bad and tuple(colour) not in outs:
                bad = f"returned colour {colour} is neither the original nor any step's output"
            if bad:
                case["steps"] = repr(steps)[:1500]
                rec.violation(f"text={t} bg={b} large={large} vr={vr} mode={mode}: {bad}", case)
            elif len(rec.samples) < 2 and len(steps) >= 3:
                rec.sample({"text": list(t), "bg": list(b), "mode": mode, "large": large, "vr": vr, "returned": list(colour), "success": success,
                            "steps": [{"from": list(a), "schedule_max": (5.0 if s is None else max(s)), "to": list(o), "own_dE": round(own_de(a, o), 3)} for a, s, o in steps[:8]]})
    finally:
        patch_everywhere(recording, gac)


def cli_strict(shard, rec, lib):
    """Strict mode through the command: with --mode 0 every adjusted rule (top level or nested in @media/@supports) must
    be within dE 5.0 of its original colour."""
    import os
    import shutil
    import tempfile
    from cmv import clirun
    from cmv.gen import stylesheets as SS
    from cmv.oracles import csscolor
    from cmv.props import c08
    scratch = os.path.join(os.environ.get("CMV_SCRATCH", tempfile.gettempdir()), f"c04-cli-{shard['idx']}")
    rnd = G.rng("c04cli", shard["seed"], shard["idx"])
    for si in range(shard["n"]):
        st = {"mode": 0, "premium": rnd.random() < 0.4, "default_bg": rnd.choice([None, "black", "#eeeeee"])}
        dbg = (255, 255, 255) if st["default_bg"] is None else csscolor.read(st["default_bg"])
        sheet = SS.make_sheet(rnd, premium=st["premium"], default_bg=dbg, rich=False, n_rules=rnd.choice([6, 10, 16]), allow={"repeat", "var", "same-pair"})
        d = os.path.join(scratch, f"s{si}")
        shutil.rmtree(d, ignore_errors=True)
        os.makedirs(d)
        with open(os.path.join(d, "sheet.css"), "w", encoding="utf-8") as f:
            f.write(sheet.text)
        rc, out, err = clirun.run(c08.cli_args("sheet.css", st), d, inprocess=True)
        rec.ev()
        rec.count("cli_strict_runs")
        cards = clirun.parse_report(os.path.join(d, "cm_colors_report.html")) or []
        for c in cards:
            if not c["ok"]:
                continue
            bg = c08.read_colour(c["bg"])
            before, _ = c08.effective_text(c["before"], bg)
            after = c08.read_colour(c["after"])
            if before is None or after is None:
                continue
            dd = own_de(before, after)
            nested = "nested" in " ".join(sheet.features.get(c["selector"], []))
            rec.count("cli_strict_cards_judged")
            rec.count("cli_strict_cards_nested" if nested else "cli_strict_cards_top_level")
            rec.maxi("max_cli_strict_dE", round(dd, 4))
            rec.nontrivial(("cli", sheet.text, c["selector"]))
            if dd > 5.0 + DE_SLACK:
                rec.violation(f"cm-colors --mode 0: rule {c['selector']!r} ({'nested in an at-rule' if nested else 'top level'}) adjusted from {c['before']!r} to "
                              f"{c['after']!r}, dE {dd:.3f} > 5.0", {"fn": "cli", "css": sheet.text, "settings": st, "selector": c["selector"]})
        shutil.rmtree(d, ignore_errors=True)


def work(shard, rec):
    from cmv.lib import Lib
    lib = Lib()
    if shard["kind"] == "cli":
        return cli_strict(shard, rec, lib)
    if shard["kind"] == "strict":
        def judge_bulk(case, obs, rec):
            """Strict mode asked through the bulk API (mode=0 as a positional or keyword argument), two text sizes in one list."""
            from cmv.gen import spellings as SP
            if (case["t"][0] + case["b"][1]) % 3:
                return
            text, bg = SP.from_json(case["text"], case["tk"]), SP.from_json(case["bg"], case["bk"])
            vr = bool(case["t"][2] & 1)
            try:
                if case["b"][0] & 1:
                    res = lib.make_readable_bulk([(text, bg), (text, bg, True)], mode=0, very_readable=vr)
                else:
                    res = lib.make_readable_bulk([(text, bg, True), (text, bg, False)], 0, vr)
            except Exception as e:
                rec.violation(f"make_readable_bulk(mode=0) raised {type(e).__name__}: {e}", {"fn": "strict_bulk", **{k: case[k] for k in ("text", "bg", "tk", "bk", "t", "b")}, "vr": vr})
                return
            for colour, status in res:
                rb = PW.readback(tuple(colour) if isinstance(colour, list) else colour)
                if rb is None:
                    rec.count("unreadable_result(C06)")
                    continue
                d = own_de(obs["orig"], rb)
                rec.count("strict_bulk_judged")
                rec.maxi("max_strict_bulk_dE", round(d, 4))
                if d > 5.0 + DE_SLACK:
                    rec.violation(f"make_readable_bulk(text={case['text']!r}, bg={case['bg']!r}, mode=0, very_readable={vr}) returned {colour!r} ({status}), "
                                  f"dE {d:.3f} > 5.0 from the original {obs['orig']}",
                                  {"fn": "strict_bulk", **{k: case[k] for k in ("text", "bg", "tk", "bk", "t", "b")}, "vr": vr, "observed": repr(res)})
        PW.run_cases(shard, rec, lib, [judge_strict, judge_bulk])
    elif shard["kind"] == "routines":
        routines(shard, rec, lib)
    else:
        chains(shard, rec, lib)


def replay(case):
    from cmv.lib import Lib
    from cmv.rec import Rec
    from cmv.gen import spellings as SP
    lib = Lib()
    opt = lib.mod("optimisation")
    rec = Rec()
    fn = case["fn"]
    if fn == "strict":
        text = SP.from_json(case["text"], case["tk"])
        bg = SP.from_json(case["bg"], case["bk"])
        p = lib.ColorPair(text, bg, large_text=case["large"])
        out = p.make_readable(mode=0, very_readable=case["vr"])
        d = own_de(p.text.rgb, PW.readback(out[0]))
        print(f"strict make_readable -> {out!r}; own dE from original {p.text.rgb} = {d:.4f}")
        return d <= 5.0 + DE_SLACK
    if fn == "strict_bulk":
        text = SP.from_json(case["text"], case["tk"])
        bg = SP.from_json(case["bg"], case["bk"])
        p = lib.ColorPair(text, bg)
        res = lib.make_readable_bulk([(text, bg), (text, bg, True)], mode=0, very_readable=case["vr"])
        ds = [own_de(p.text.rgb, PW.readback(tuple(c) if isinstance(c, list) else c)) for c, _ in res]
        print(f"make_readable_bulk(mode=0) -> {res!r}; own dE from original {p.text.rgb} = {ds}")
        return max(ds) <= 5.0 + DE_SLACK
    if fn in ("binary_search_lightness", "gradient_descent_oklch"):
        t, b = tuple(case["t"]), tuple(case["b"])
        res = getattr(opt, fn)(t, b, case["tol"], case["target"], case["large"])
        print(f"{fn}({t},{b},{case['tol']},{case['target']}) = {res}; own dE = {own_de(t, res) if res else None}")
        check_result(rec, fn, "replay", t, res, case["tol"], case)
    elif fn == "generate_accessible_color":
        t, b = tuple(case["t"]), tuple(case["b"])
        res = opt.generate_accessible_color(t, b, large=case["large"], target_contrast=case["target"], min_contrast=case["min"], delta_e_sequence=case["sched"])
        mx = 5.0 if case["sched"] is None else (max(case["sched"]) if case["sched"] else 0.0)
        print(f"generate_accessible_color(...) = {res}; own dE = {own_de(t, res)}; max tolerance {mx}")
        check_result(rec, fn, "replay", t, res, mx, case)
    elif fn == "cli":
        print("settings", case["settings"], "selector", case["selector"], "\n" + case["css"])
        return True
    else:
        sh = {"seed": 0, "idx": 0, "n": 0}
        print("chain case:", {k: v for k, v in case.items() if k != "steps"})
        print("recorded steps:", case.get("steps"))
        return True
    for v in rec.viol:
        print("VIOLATED:", v["what"])
    return not rec.viol
