"""C16 - asking for less never fails: mode 2 covers mode 1, readable covers
very readable."""
from cmv import pairwork as PW
from cmv.gen import colors as G, spellings as SP
from cmv.oracles import wcag

ID = "C16"
LEVEL = "exploration"
ORACLES = ("wcag", "csscolor")
RULE = ("pairs with ratio in [0.3,0.9]x minimum (need several default-mode steps), near-threshold pairs, mid-tone backgrounds, "
        "random spelling; all 12 (mode,large,very_readable) configurations per pair. Relations: mode1 success => mode2 returns the "
        "identical (colour, True); very_readable success => ordinary success for the same mode/size; an extra shard of vivid-text pairs whose fix lies against the lightness "
        "search's direction (premise: the ~2% of them that mode 1 repairs). Non-trivial = pair below the "
        "minimum for which the stronger request succeeded with a changed colour; distinct = (text,bg,large,relation).")
ASSUMPTIONS = ["the library itself under the other setting is the reference (differential)"]
ENUMERATED = {"quick": [], "thorough": ["every third grey level squared x all 12 configurations"]}
MUST_OBSERVE = {"any": ["rel_mode_judged", "rel_vr_judged", "premise_mode1_success", "premise_vr_success"]}
SIZES = {"quick": dict(pairs=600), "thorough": dict(pairs=9000)}


def classes(rnd, n):
    out = []
    i = 0
    pat = ["deep", "deep", "saturating", "near", "mid", "deep", "uniform", "near", "saturating", "deep"]
    while len(out) < n:
        c = pat[i % len(pat)]
        i += 1
        if c == "deep":
            g = G.below(rnd, rnd.random() < 0.5, rnd.random() < 0.5, lo=0.3, hi=0.9)
            if g:
                out.append(("deep", g[0], g[1]))
        elif c == "near":
            g = G.near_threshold(rnd)
            if g:
                out.append(("near", g[0], g[1]))
        elif c == "saturating":
            g = G.saturating(rnd)
            if g:
                out.append(("saturating", g[0], g[1]))
        elif c == "mid":
            b = G.midtone_bg(rnd)
            end = rnd.choice([G.WHITE, G.BLACK])
            t = G.steer(G.lerp(b, G.uniform(rnd), 0.3), b, rnd.choice(G.THRESHOLDS) * rnd.uniform(0.4, 1.0), toward=end)
            if t:
                out.append(("mid", t, b))
        else:
            out.append(("uniform", G.uniform(rnd), G.uniform(rnd)))
    return out[:n]


def shards(tier, seed):
    cases = PW.build_cases(seed, "c16", SIZES[tier]["pairs"], per_pair_configs=12, classes=classes)
    out = [{"kind": "pairs", "cases": c} for c in PW.chunk(cases, 64 if tier == "thorough" else 16)]
    if tier == "thorough":
        out += [{"kind": "pairs", "cases": c} for c in PW.chunk(PW.lattice_cases(seed, "c16", "grey", 12), 32)]
    # pairs whose fix lies *against* the lightness search's own direction (the end of that direction - white on a background
    # with OKLCH L < 0.5, black otherwise - does not reach the minimum; vivid text on the other side hugging it): the default
    # mode repairs about 3 % of them through its chroma descent, and those are the premise of the mode relation here
    out += [{"kind": "against", "seed": seed, "idx": i, "n": 500 if tier == "quick" else 4000} for i in range(4 if tier == "quick" else 16)]
    return out


def judge(case, obs, rec):
    res = obs["res"]
    orig = obs["orig"]
    bg = obs["bgi"]
    base = {k: case[k] for k in ("text", "bg", "tk", "bk", "t", "b")}
    for k, out in res.items():
        if out[0] == "EXC":
            rec.violation(f"make_readable raised {out[1]} for config {k}", dict(base, rel="exc", observed=repr(out)))
            return
    for large in (False, True):
        for vr in (False, True):
            r1, r2 = res.get((1, large, vr)), res.get((2, large, vr))
            if r1 is None or r2 is None:
                continue
            rec.count("rel_mode_judged")
            if r1[1] is True:
                rec.count("premise_mode1_success")
                rb = PW.readback(r1[0])
                if rb is not None and tuple(rb) != tuple(orig):
                    rec.nontrivial((case["t"], case["b"], large, vr, "mode"))
                if not (r2[1] is True and r2[0] == r1[0]):
                    rec.violation(f"text={case['text']!r} bg={case['bg']!r} large={large} vr={vr}: mode 1 -> {r1!r} but mode 2 -> {r2!r}",
                                  dict(base, rel="mode", large=large, vr=vr, observed=repr((r1, r2))))
            elif r2[1] is True:
                rec.count("mode2_fixes_what_mode1_cannot")
        for mode in (0, 1, 2):
            hi, lo = res.get((mode, large, True)), res.get((mode, large, False))
            if hi is None or lo is None:
                continue
            rec.count("rel_vr_judged")
            if hi[1] is True:
                rec.count("premise_vr_success")
                rb = PW.readback(hi[0])
                if rb is not None and tuple(rb) != tuple(orig):
                    rec.nontrivial((case["t"], case["b"], large, mode, "vr"))
                if lo[1] is not True:
                    rec.violation(f"text={case['text']!r} bg={case['bg']!r} mode={mode} large={large}: very_readable -> {hi!r} but ordinary -> {lo!r}",
                                  dict(base, rel="vr", large=large, mode=mode, observed=repr((hi, lo))))
    if len(rec.samples) < 3:
        rec.sample({"text": case["text"], "bg": case["bg"], "original_ratio": round(wcag.ratio(orig, bg), 4),
                    "results": {f"mode{m},large={l},vr={v}": list(o) for (m, l, v), o in sorted(res.items())}})


def against_direction(shard, rec, lib):
    from cmv.oracles import oklab
    rnd = G.rng("c16against", shard["seed"], shard["idx"])
    done = 0
    guard = 0
    while done < shard["n"] and guard < shard["n"] * 60:
        guard += 1
        large, vr = rnd.random() < 0.5, rnd.random() < 0.3
        mn = wcag.minimum(large, vr)
        t = [rnd.randrange(0, 30), rnd.randrange(225, 256), rnd.randrange(256)]
        rnd.shuffle(t)
        t = tuple(t)
        b = G.steer(tuple(rnd.randrange(10, 230) for _ in range(3)), t, mn * rnd.uniform(0.975, 0.999))
        if b is None or not (0.97 * mn <= wcag.ratio(t, b) < mn):
            continue
        b = tuple(b)
        end = (255, 255, 255) if oklab.lab_direct(b)[0] < 0.5 else (0, 0, 0)
        if wcag.ratio(end, b) >= mn:
            continue
        done += 1
        rec.ev()
        rec.count("against_direction_pairs")
        base = {"text": list(t), "bg": list(b), "tk": "tuple", "bk": "tuple", "t": list(t), "b": list(b)}
        try:
            r1 = lib.ColorPair(t, b, large_text=large).make_readable(mode=1, very_readable=vr)
            if r1[1] is not True:
                continue
            rec.count("premise_mode1_success")
            rec.count("against_direction_mode1_successes")
            rec.nontrivial((t, b, large, vr, "mode"))
            r2 = lib.ColorPair(t, b, large_text=large).make_readable(mode=2, very_readable=vr)
            rb = lib.make_readable_bulk([(t, b, large)], mode=2, very_readable=vr)[0]
        except Exception as e:
            rec.violation(f"make_readable raised {type(e).__name__}: {e} for {t} on {b}", dict(base, rel="exc"))
            continue
        rec.count("rel_mode_judged")
        if not (r2[1] is True and r2[0] == r1[0]):
            rec.violation(f"text={t} bg={b} large={large} vr={vr}: mode 1 -> {r1!r} but mode 2 -> {r2!r}", dict(base, rel="mode", large=large, vr=vr, observed=repr((r1, r2))))
        elif tuple(rb[0]) != tuple(r1[0]) or rb[1] not in ("readable", "very readable"):
            rec.violation(f"text={t} bg={b} large={large} vr={vr}: mode 1 -> {r1!r} but bulk mode 2 -> {rb!r}", dict(base, rel="mode", large=large, vr=vr, observed=repr((r1, rb))))


def work(shard, rec):
    from cmv.lib import Lib
    if shard["kind"] == "against":
        return against_direction(shard, rec, Lib())
    PW.run_cases(shard, rec, Lib(), [judge])


def replay(case):
    from cmv.lib import Lib
    lib = Lib()
    text = SP.from_json(case["text"], case["tk"])
    bg = SP.from_json(case["bg"], case["bk"])
    pair = lib.ColorPair(text, bg, large_text=case.get("large", False))
    if case["rel"] == "mode":
        r1 = pair.make_readable(mode=1, very_readable=case["vr"])
        r2 = pair.make_readable(mode=2, very_readable=case["vr"])
        print(f"mode 1 -> {r1!r}; mode 2 -> {r2!r}")
        ok = not r1[1] or (r2[1] is True and r2[0] == r1[0])
    elif case["rel"] == "vr":
        hi = pair.make_readable(mode=case["mode"], very_readable=True)
        lo = pair.make_readable(mode=case["mode"], very_readable=False)
        print(f"very_readable -> {hi!r}; ordinary -> {lo!r}")
        ok = not hi[1] or lo[1] is True
    else:
        print(case)
        ok = True
    print("holds" if ok else "VIOLATED")
    return ok
