"""C19 - reports are injection-safe: user text appears only HTML-escaped."""
import os
import tempfile

from cmv import cli
from cmv.gen import colors as G
from cmv.oracles import htmldom

ID = "C19"
LEVEL = "exploration"
ORACLES = ("htmldom",)
RULE = ("hostile strings over an alphabet of markup metacharacters (< > & \" ' ` script style= onerror= </div> </style> --> entity look-alikes, the "
        "template's own class names) placed, one slot at a time, in every user-controlled slot of generate_report (selector, file, bg, original_text, "
        "tuned_text) and to_html/to_html_bulk (fg, bg, tuned_fg, selector, file); compared with the report for a benign marker in the same slot: "
        "identical element/attribute skeleton, the text node / style value of the slot equals the control's with the marker replaced by the hostile "
        "string verbatim. End-to-end: bulk API save_report with colour strings the lenient parser accepts and with rejected entries carrying the hostile text, single-pair save_report, and the real CLI "
        "with markup in attribute-selector strings, file names and colour values. Non-trivial = hostile string containing at least one of < > & \" '; "
        "distinct = (generator, slot, string).")
ASSUMPTIONS = ["html.parser tokenisation stands for a browser's for documents whose metacharacters are escaped; level badges come from a fixed vocabulary and are not user text"]
MUST_OBSERVE = {"any": ["e2e_bulk_judged", "e2e_cli_judged"]}   # direct calls of the generators are auxiliary
SIZES = {"quick": dict(strings=1200, cli=5, bulk=40), "thorough": dict(strings=6000, cli=12, bulk=120)}

ATOMS = ["<", ">", "&", '"', "'", "`", "<script>", "</script>", "<style>", "</style>", " style=", " onerror=", "onmouseover=", "</div>", "<div>", "-->", "<!--",
         "&lt;", "&amp;", "&quot", "&#x27;", "&#60;", "color-box", "badge-pass", "card", "selector", "<img src=x>", "<b>", "<svg/onload=a>", "javascript:", ";", ":", "{", "}",
         "x", "Zq", " ", "\t", "\n", "=", "/", "\\", "]]>", "<![CDATA[", "<?", "%3C", "é", "日本", " ", "expression(", "url(", ")", "(", "'></div><script>a()</script>",
         '" onmouseover="a()', "' onmouseover='a()", "><", "</main>", "</html>", "<body onload=a>"]
# Unicode compatibility forms that fold to markup metacharacters under NFKC/NFKD, and other characters a normaliser would alter
ATOMS += ["＜", "＞", "＆", "＂", "＇", "﹤", "﹥", "﹠", "＜img src=x onerror=a＞", "﹤b﹥", "＆lt;", "＂ onmouseover=＂a()", "ﬁ", "①", "Å", "ｓｃｒｉｐｔ", "e\u0301", "\u212b", "＝", "／"]
ATOMS_NODIGIT = [a for a in ATOMS if not any(ch.isdigit() for ch in a) and "." not in a]


def hostile(rnd, atoms=ATOMS):
    n = rnd.randrange(1, 7)
    s = "".join(rnd.choice(atoms) for _ in range(n))
    if not s.strip():
        s += "<x>"
    return s


def shards(tier, seed):
    z = SIZES[tier]
    out = [{"kind": "slots", "seed": seed, "idx": i, "n": z["strings"] // 8} for i in range(8)]
    out += [{"kind": "e2e_api", "seed": seed, "idx": i, "n": z["bulk"] // 4} for i in range(4)]
    out += [{"kind": "e2e_cli", "seed": seed, "idx": i, "n": z["cli"]} for i in range(4)]
    return out


def _sub(x, pairs):
    for a, b in pairs:
        x = x.replace(a, b)
    return x


def compare(rec, what, control_doc, hostile_doc, marker, T, case, pairs=None):
    """-> True if judged ok. pairs: [(text as shown for the control, text as
    it must be shown for the hostile input)], default [(marker, T)]."""
    pairs = pairs or [(marker, T)]
    cs, ct, cst = htmldom.skeleton(control_doc)
    hs, ht, hst = htmldom.skeleton(hostile_doc)
    if marker not in control_doc:
        rec.count("skipped:marker does not reach the report")
        return None
    if cs != hs:
        k = next((i for i, (a, b) in enumerate(zip(cs, hs)) if a != b), min(len(cs), len(hs)))
        rec.violation(f"{what}: element structure changes when the slot holds {T!r}: control has {cs[k] if k < len(cs) else 'END'} where the report has "
                      f"{hs[k] if k < len(hs) else 'END'} ({len(cs)} vs {len(hs)} nodes)", case)
        return False
    want_t = [htmldom.norm(_sub(x, pairs)) for x in ct]
    want_t = [x for x in want_t if x]
    if ht != want_t:
        k = next((i for i, (a, b) in enumerate(zip(want_t, ht)) if a != b), min(len(ht), len(want_t)))
        rec.violation(f"{what}: text is not displayed verbatim for {T!r}: expected text node {want_t[k] if k < len(want_t) else 'END'!r}, report shows "
                      f"{ht[k] if k < len(ht) else 'END'!r}", case)
        return False
    want_s = [_sub(x, pairs) for x in cst]
    if hst != want_s:
        k = next((i for i, (a, b) in enumerate(zip(want_s, hst)) if a != b), 0)
        rec.violation(f"{what}: style attribute differs for {T!r}: expected {want_s[k]!r}, got {hst[k]!r}", case)
        return False
    return True


GR_SLOTS = ["selector", "file", "bg", "original_text", "tuned_text"]
TH_SLOTS = ["fg", "bg", "tuned_fg", "selector", "file"]


def work(shard, rec):
    from cmv.lib import Lib
    lib = Lib()
    scratch = os.path.join(os.environ.get("CMV_SCRATCH", tempfile.gettempdir()), f"c19-{shard['kind']}-{shard['idx']}")
    os.makedirs(scratch, exist_ok=True)
    os.chdir(scratch)
    rnd = G.rng("c19", shard["kind"], shard["seed"], shard["idx"])
    if shard["kind"] == "slots":
        slots(shard, rec, lib, rnd, scratch)
    elif shard["kind"] == "e2e_api":
        e2e_api(shard, rec, lib, rnd, scratch)
    else:
        e2e_cli(shard, rec, lib, rnd, scratch)


def slots(shard, rec, lib, rnd, scratch):
    hr = lib.mod("html_report")
    vis = lib.mod("visualiser")
    gen_report = getattr(hr, "generate_report", None)
    to_html = getattr(vis, "to_html", None)
    to_html_bulk = getattr(vis, "to_html_bulk", None)
    for nm, f in (("generate_report", gen_report), ("to_html", to_html), ("to_html_bulk", to_html_bulk)):
        if f is None:
            rec.count(f"skipped:{nm} absent")
    path = os.path.join(scratch, "r.html")

    def run_gr(vals):
        d = {"file": vals["file"], "selector": vals["selector"], "bg": vals["bg"], "original_text": vals["original_text"],
             "tuned_text": vals["tuned_text"], "original_level": "FAIL", "new_level": "AA"}
        other = {"file": "other.css", "selector": ".other", "bg": "#ffffff", "original_text": "#777777", "tuned_text": "#757575", "original_level": "FAIL", "new_level": "AA"}
        gen_report([other, d, other], output_path=path)
        return open(path, encoding="utf-8").read()

    def run_th(vals):
        return to_html(vals["fg"], vals["bg"], vals["tuned_fg"], "FAIL", "AA", vals["selector"], vals["file"])

    def run_thb(vals):
        d = {"fg": vals["fg"], "bg": vals["bg"], "tuned_fg": vals["tuned_fg"], "original_level": "FAIL", "new_level": "AAA", "selector": vals["selector"], "file": vals["file"]}
        to_html_bulk([d, d], output_path=path)
        return open(path, encoding="utf-8").read()

    gens = [("generate_report", gen_report, run_gr, GR_SLOTS), ("to_html", to_html, run_th, TH_SLOTS), ("to_html_bulk", to_html_bulk, run_thb, TH_SLOTS)]
    controls = {}
    for i in range(shard["n"]):
        T = hostile(rnd)
        for nm, f, runner, slotnames in gens:
            if f is None:
                continue
            base = {s: f"Zq{k}mark{s}Zq" for k, s in enumerate(slotnames)}
            for s in slotnames:
                if (nm, s) not in controls:
                    controls[(nm, s)] = runner(base)
                vals = dict(base)
                vals[s] = T
                case = {"fn": nm, "slot": s, "T": T}
                rec.ev()
                try:
                    doc = runner(vals)
                except Exception as e:
                    rec.violation(f"{nm} raised {type(e).__name__}: {e} with {s}={T!r}", case)
                    continue
                ok = compare(rec, f"{nm} slot {s}", controls[(nm, s)], doc, base[s], T, case)
                rec.count("slot_judged:" + nm)
                if any(ch in T for ch in "<>&\"'"):
                    rec.nontrivial((nm, s, T))
                if ok and len(rec.samples) < 2 and "<" in T and '"' in T:
                    rec.sample({"generator": nm, "slot": s, "hostile": T, "verdict": "same skeleton as control; text/style shows the string verbatim"})


def e2e_api(shard, rec, lib, rnd, scratch):
    for i in range(shard["n"]):
        T = hostile(rnd, ATOMS_NODIGIT)
        marker = "ZqMARKqZ"
        for where in ("text", "bg"):
            def entries(x):
                return [(f"119, 119, 119 {x}", "#ffffff")] if where == "text" else [("#777777", f"250, 250, 250 {x}")]
            case = {"fn": "e2e_bulk", "where": where, "T": T}
            rec.ev()
            try:
                r0 = lib.make_readable_bulk(entries(marker), save_report=True)
                ctrl = open(os.path.join(scratch, "cm_colors_bulk_report.html"), encoding="utf-8").read()
                r1 = lib.make_readable_bulk(entries(T), save_report=True)
                doc = open(os.path.join(scratch, "cm_colors_bulk_report.html"), encoding="utf-8").read()
            except Exception as e:
                rec.violation(f"make_readable_bulk(save_report=True) raised {type(e).__name__}: {e} for colour string with {T!r}", case)
                continue
            if "invalid" in str(r1[0][1]) or "invalid" in str(r0[0][1]):
                rec.count("e2e_bulk_rejected_by_parser")
                continue
            if compare(rec, f"bulk report, {where} colour string", ctrl, doc, marker, T, case) is not None:
                rec.count("e2e_bulk_judged")
                rec.nontrivial(("bulk", where, T))
        # a list in which some entries are rejected by the parser and carry the hostile text: whether the report mentions them or
        # not, it has the control's element structure and shows user text verbatim
        case = {"fn": "e2e_bulk_rejected", "T": T}
        rec.ev()
        try:
            def mixed(x):
                return [("#777777", "#ffffff"), (f"no-such-colour {x}", "#ffffff"), ("#888888", f"{x}"), (f"{x}", f"{x}"), ((1, 2, 3), "#000000")]
            lib.make_readable_bulk(mixed(marker), save_report=True)
            ctrl = open(os.path.join(scratch, "cm_colors_bulk_report.html"), encoding="utf-8").read()
            lib.make_readable_bulk(mixed(T), save_report=True)
            doc = open(os.path.join(scratch, "cm_colors_bulk_report.html"), encoding="utf-8").read()
            if marker in ctrl:
                compare(rec, "bulk report with rejected entries", ctrl, doc, marker, T, case)
            else:
                cs, hs = htmldom.skeleton(ctrl), htmldom.skeleton(doc)
                if cs[0] != hs[0]:
                    rec.violation(f"bulk report with rejected entries: element structure changes when the rejected colour strings hold {T!r} "
                                  f"({len(cs[0])} vs {len(hs[0])} nodes)", case)
                elif cs[1] != hs[1]:
                    rec.violation(f"bulk report with rejected entries: displayed text changes when the rejected colour strings hold {T!r}", case)
            rec.count("e2e_bulk_rejected_judged")
        except Exception as e:
            rec.violation(f"make_readable_bulk(save_report=True) raised {type(e).__name__}: {e} with rejected entries holding {T!r}", case)
        # single pair quick report
        case = {"fn": "e2e_single", "T": T}
        try:
            lib.ColorPair(f"119, 119, 119 {marker}", f"250, 250, 250 {marker}").make_readable(save_report=True)
            ctrl = open(os.path.join(scratch, "cm_colors_quick_report.html"), encoding="utf-8").read()
            lib.ColorPair(f"119, 119, 119 {T}", f"250, 250, 250 {T}").make_readable(save_report=True)
            doc = open(os.path.join(scratch, "cm_colors_quick_report.html"), encoding="utf-8").read()
        except Exception as e:
            rec.violation(f"make_readable(save_report=True) raised {type(e).__name__}: {e} for colour string with {T!r}", case)
            continue
        r = compare(rec, "quick report", ctrl, doc, marker, T, case)
        rec.count("e2e_single_judged" if r is not None else "e2e_single_marker_absent")


def css_string(s):
    """A CSS double-quoted string literal denoting s."""
    out = []
    for ch in s:
        if ch in '"\\':
            out.append("\\" + ch)
        elif ch in "\n\r\f\t" or ord(ch) < 0x20 or ch == " ":
            out.append("\\%x " % ord(ch))
        else:
            out.append(ch)
    return '"' + "".join(out) + '"'


def e2e_cli(shard, rec, lib, rnd, scratch):
    import shutil
    for i in range(shard["n"]):
        T = hostile(rnd, [a for a in ATOMS_NODIGIT if "/" not in a and "\\" not in a and "\n" not in a and "\t" not in a and " " not in a])
        marker = "ZqMARKqZ"
        docs = {}
        shown = {}
        for tag, x in (("ctrl", marker), ("host", T)):
            d = os.path.join(scratch, f"cli{i}{tag}")
            shutil.rmtree(d, ignore_errors=True)
            os.makedirs(d)
            fname = (x.replace("/", "_").replace("\x00", "_")[:60] or "x") + ".css"
            sheet = (f"a[title={css_string(x)}] {{ color: #777777; background-color: #ffffff; }}\n"
                     f".plain {{ color: 119, 119, 119 {css_string(x)}; }}\n"
                     f".nobg {{ color: #777777; }}\n")
            import tinycss2
            rule = [r for r in tinycss2.parse_stylesheet(sheet, skip_whitespace=True, skip_comments=True) if r.type == "qualified-rule"][0]
            rule2 = [r for r in tinycss2.parse_stylesheet(sheet, skip_whitespace=True, skip_comments=True) if r.type == "qualified-rule"][1]
            decl = [dd for dd in tinycss2.parse_declaration_list(rule2.content, skip_whitespace=True, skip_comments=True) if dd.type == "declaration"][0]
            # the user text as the tool reads it: serialised selector, file name, serialised colour value
            dbg = f"250, 250, 250 {x}"      # --default-bg is user text too: the lenient parser accepts it and it reaches the style attribute
            shown[tag] = (tinycss2.serialize(rule.prelude).strip(), fname, tinycss2.serialize(decl.value).strip(), dbg)
            try:
                with open(os.path.join(d, fname), "w", encoding="utf-8") as f:
                    f.write(sheet)
            except OSError:
                rec.count("skipped:file name not creatable")
                docs = None
                break
            rc, out, err = cli.run_subprocess(["./" + fname, "--default-bg", dbg], cwd=d)
            rp = os.path.join(d, "cm_colors_report.html")
            if not os.path.exists(rp):
                rec.count("e2e_cli_no_report")
                docs = None
                break
            docs[tag] = open(rp, encoding="utf-8").read()
        rec.ev()
        if docs:
            case = {"fn": "e2e_cli", "T": T}
            r = compare(rec, "CLI report (selector string, colour value, file name, --default-bg)", docs["ctrl"], docs["host"], marker, T, case,
                        pairs=[(shown["ctrl"][k], shown["host"][k]) for k in (3, 0, 2, 1)])
            if r is not None:
                rec.count("e2e_cli_judged")
                rec.nontrivial(("cli", T))
        for tag in ("ctrl", "host"):
            shutil.rmtree(os.path.join(scratch, f"cli{i}{tag}"), ignore_errors=True)


def replay(case):
    from cmv.lib import Lib
    from cmv.rec import Rec
    lib = Lib()
    rec = Rec()
    d = tempfile.mkdtemp(prefix="c19-replay-")
    os.chdir(d)
    T = case["T"]
    if case["fn"] in ("generate_report", "to_html", "to_html_bulk"):
        import random
        hr, vis = lib.mod("html_report"), lib.mod("visualiser")
        slotnames = GR_SLOTS if case["fn"] == "generate_report" else TH_SLOTS
        base = {s: f"Zq{k}mark{s}Zq" for k, s in enumerate(slotnames)}

        def runner(vals):
            if case["fn"] == "generate_report":
                dd = dict(vals, original_level="FAIL", new_level="AA")
                hr.generate_report([dd], output_path="r.html")
                return open("r.html", encoding="utf-8").read()
            if case["fn"] == "to_html":
                return vis.to_html(vals["fg"], vals["bg"], vals["tuned_fg"], "FAIL", "AA", vals["selector"], vals["file"])
            dd = dict(vals, original_level="FAIL", new_level="AA")
            vis.to_html_bulk([dd], output_path="r.html")
            return open("r.html", encoding="utf-8").read()
        ctrl = runner(base)
        vals = dict(base)
        vals[case["slot"]] = T
        compare(rec, f"{case['fn']} slot {case['slot']}", ctrl, runner(vals), base[case["slot"]], T, case)
    else:
        print("end-to-end case; hostile string:", repr(T))
    for v in rec.viol:
        print("VIOLATED:", v["what"])
    if not rec.viol:
        print("holds for", repr(T))
    import shutil
    os.chdir("/")
    shutil.rmtree(d, ignore_errors=True)
    return not rec.viol
