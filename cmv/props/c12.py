"""C12 - the bulk API is exactly a map of the single-pair API, in order."""
from cmv import pairwork as PW
from cmv.gen import colors as G, spellings as SP
from cmv.oracles import wcag

ID = "C12"
LEVEL = "exploration"
ORACLES = ("wcag", "csscolor")
RULE = ("lists of length 0-12 over the C01 pair classes in random accepted spellings (incl. translucent text), 2- and 3-element entries mixed, "
        "duplicates, invalid entries (text, background or both) at random positions, all 6 (mode, very_readable) settings, passed by keyword or by position. Oracle: one result per "
        "entry in order; result colour == a fresh ColorPair(text,bg,large).make_readable(mode,very_readable)[0]; status == WCAG label of the "
        "read-back colour vs the background at that text size; invalid entries returned unchanged with a status that claims no readability; "
        "bulk(permuted list) == permuted bulk(list); removing the invalid entries leaves the other results unchanged. "
        "Non-trivial = list with >= 2 entries of which >= 1 needs fixing; distinct = distinct list.")
ASSUMPTIONS = ["single-pair API is the reference for the colour (differential); wcag/csscolor oracles for the status label"]
MUST_OBSERVE = {"any": ["lists_judged", "entries_vs_single", "status_judged", "invalid_entries_judged", "permutations_judged"]}
SIZES = {"quick": 480, "thorough": 9600}
INVALID = ["notacolor", "#12", "#ggg", "rgb(1,2)", "", "#12345", "hsl(", (1, 2), (1, 2, 3, 4, 5), [None, 1, 2], (), "var(--x)"]
# only unambiguously unparseable values: out-of-range components (which CSS would clamp) are deliberately absent


def shards(tier, seed):
    return [{"kind": "lists", "seed": seed, "idx": i, "n": SIZES[tier] // 16} for i in range(16)]


def spelled(rnd, t, b, allow_translucent=True):
    tks = SP.available(tuple(t))
    bks = SP.available(tuple(b))
    tk, tsp = tks[rnd.randrange(len(tks))]
    bk, bsp = bks[rnd.randrange(len(bks))]
    if allow_translucent and rnd.random() < 0.12:
        kind = rnd.choice(SP.TRANSLUCENT_KINDS + SP.TRANSLUCENT_KINDS_X)
        sp = SP.spell_translucent(tuple(t), rnd.choice(["0.5", "0.8", "0.25", "1", "0.93"]), kind)
        if sp is not None:
            tsp = sp
    return tsp, bsp


def work(shard, rec):
    from cmv.lib import Lib
    lib = Lib()
    rnd = G.rng("c12", shard["seed"], shard["idx"])
    settings = [(m, v) for m in (0, 1, 2) for v in (False, True)]
    for li in range(shard["n"]):
        n = rnd.choice([0, 1, 2, 3, 4, 5, 6, 8, 10, 12])
        triples = G.pair_classes(rnd, n) if n else []
        entries = []
        meta = []   # (valid?, bg_rgb or None, large)
        for cls, t, b in triples:
            tsp, bsp = spelled(rnd, t, b)
            r = rnd.random()
            large = rnd.random() < 0.4
            valid = True
            if r < 0.08:
                tsp, valid = rnd.choice(INVALID), False
            elif r < 0.14:
                bsp, valid = rnd.choice(INVALID), False
            elif r < 0.17:
                tsp, bsp, valid = rnd.choice(INVALID), rnd.choice(INVALID), False
            if rnd.random() < 0.5:
                e = (tsp, bsp, large)
            else:
                e = (tsp, bsp)
                large = False
            if rnd.random() < 0.3:
                e = list(e)
            entries.append(e)
            meta.append((valid, tuple(b), large))
            if rnd.random() < 0.12:   # duplicate
                entries.append(e)
                meta.append((valid, tuple(b), large))
            if rnd.random() < 0.06 and isinstance(e, list):   # the very same entry object a second time
                entries.append(e)
                meta.append((valid, tuple(b), large))
                rec.count("same_entry_object_twice")
            if rnd.random() < 0.15:   # twin: the same colours in the same notation at the *other* text size
                twin = (e[0], e[1], not large) if (large or rnd.random() < 0.5) else (e[0], e[1])
                tl = twin[2] if len(twin) == 3 else False
                entries.append(twin if rnd.random() < 0.7 else list(twin))
                meta.append((valid, tuple(b), tl))
                rec.count("twin_entries_other_size")
        if li % 5 == 0:
            # entries whose arguments compare equal in Python but denote different colours (ints are channels, floats in [0,1]
            # fractions, bools ints), next to each other in one list
            bits = [rnd.choice([0, 1]) for _ in range(3)]
            if sum(bits) in (0, 3):
                bits[rnd.randrange(3)] ^= 1
            abg = rnd.choice(["#000000", "#ffffff", (40, 40, 40)])
            forms = [tuple(int(x) for x in bits), tuple(float(x) for x in bits), tuple(bool(x) for x in bits)]
            rnd.shuffle(forms)
            pos = rnd.randrange(len(entries) + 1)
            for f_ in forms:
                den = tuple(255 * int(x) for x in f_) if isinstance(f_[0], float) else tuple(int(x) for x in f_)
                entries.insert(pos, (f_, abg))
                meta.insert(pos, (True, None, False))
            rec.count("alias_entries", 3)
        if li % 5 == 2 and entries:
            # a tuple / list colour and the informal string that prints the same characters, next to each other (both orders):
            # different input formats (and, for fractions, different colours)
            k0 = rnd.randrange(len(entries))
            if rnd.random() < 0.5:
                tt, bb = tuple(rnd.randrange(256) for _ in range(3)), rnd.choice([(255, 255, 255), (0, 0, 0), (238, 238, 238)])
            else:
                tt, bb = tuple(round(rnd.random(), 1) for _ in range(3)), (1.0, 1.0, 1.0)
            pair_t, pair_s = (tt, bb), (str(tt), str(bb))
            for e2 in ((pair_t, pair_s) if rnd.random() < 0.5 else (pair_s, pair_t)):
                entries.insert(k0, e2)
                meta.insert(k0, (True, None, False))
            rec.count("str_alias_entries", 2)
        mode, vr = settings[(li + shard["idx"]) % 6]
        case = {"entries": [repr(e) for e in entries], "mode": mode, "vr": vr, "seed": shard["seed"], "idx": shard["idx"], "li": li}
        rec.ev()
        try:
            # the documented parameters, by keyword or by position: (pairs, mode, very_readable, save_report)
            if li % 3 == 1:
                res = lib.make_readable_bulk(list(entries), mode, vr)
                rec.count("positional_calls")
            elif li % 3 == 2:
                res = lib.make_readable_bulk(list(entries), mode, vr, False)
                rec.count("positional_calls")
            else:
                res = lib.make_readable_bulk(list(entries), mode=mode, very_readable=vr)
        except Exception as e:
            rec.violation(f"make_readable_bulk({entries!r}, mode={mode}, very_readable={vr}) raised {type(e).__name__}: {e}", case)
            continue
        rec.count("lists_judged")
        rec.count(f"len:{min(len(entries), 12)}")
        if not isinstance(res, list) or len(res) != len(entries):
            rec.violation(f"make_readable_bulk returned {len(res) if hasattr(res, '__len__') else res!r} results for {len(entries)} entries", case)
            continue
        needs_fix = 0
        ok = True
        for j, (e, (valid, b, large), out) in enumerate(zip(entries, meta, res)):
            text, bg = e[0], e[1]
            if not (isinstance(out, tuple) and len(out) == 2):
                rec.violation(f"bulk result {j} is {out!r}, expected a (colour, status) pair", case)
                ok = False
                break
            col, status = out
            if not valid:
                rec.count("invalid_entries_judged")
                same = (col is text) or (type(col) is type(text) and col == text)
                if not same or status in ("readable", "very readable") or not isinstance(status, str):
                    rec.violation(f"bulk entry {j} {e!r} cannot be parsed but was reported as {out!r} (must be returned unchanged, never claiming readability)", case)
                    ok = False
                continue
            pair = lib.ColorPair(text, bg, large)
            if not pair.is_valid:
                rec.count("skipped:library rejects reference-valid spelling(C07)")
                continue
            single = pair.make_readable(mode=mode, very_readable=vr)
            rec.count("entries_vs_single")
            if wcag.ratio(pair.text.rgb, pair.bg.rgb) < wcag.minimum(large, vr):
                needs_fix += 1
            if col != single[0] or type(col) is not type(single[0]):
                rec.violation(f"bulk entry {j} {e!r} mode={mode} vr={vr}: bulk colour {col!r} != single-pair result {single[0]!r}", case)
                ok = False
                continue
            rb = PW.readback(col)
            if rb is None:
                rec.violation(f"bulk entry {j} {e!r}: returned colour {col!r} cannot be read back", case)
                ok = False
                continue
            r = wcag.ratio(rb, tuple(pair.bg.rgb))
            wants = {wcag.LABEL[wcag.level(r, large)]}
            for th in (3.0, 4.5, 7.0):
                if abs(r - th) <= wcag.RATIO_BAND * th:
                    wants |= {wcag.LABEL[wcag.level(th, large)], wcag.LABEL[wcag.level(th - 1e-6, large)]}
            rec.count("status_judged")
            if status not in wants:
                rec.violation(f"bulk entry {j} {e!r} (large={large}): status {status!r} for {col!r}, whose ratio against {pair.bg.rgb} is {r:.4f} -> {sorted(wants)}", case)
                ok = False
        if not ok:
            continue
        if len(entries) >= 2 and needs_fix:
            rec.nontrivial(repr(entries) + repr((mode, vr)))
        # the same entries handed over as a one-shot iterable (zip / generator), with and without a report: one result per entry
        if li % 8 == 1 and entries:
            import contextlib, io, os, tempfile
            for how in ("generator", "zip"):
                for save in (False, True):
                    it = (e for e in entries) if how == "generator" else zip([e[0] for e in entries], [e[1] for e in entries], [(e[2] if len(e) == 3 else False) for e in entries])
                    want = res if how == "generator" else lib.make_readable_bulk([(e[0], e[1], (e[2] if len(e) == 3 else False)) for e in entries], mode=mode, very_readable=vr)
                    try:
                        cwd = os.getcwd()
                        os.chdir(os.environ.get("CMV_SCRATCH", tempfile.gettempdir()))
                        try:
                            with contextlib.redirect_stdout(io.StringIO()):
                                got = lib.make_readable_bulk(it, mode=mode, very_readable=vr, save_report=save)
                        finally:
                            os.chdir(cwd)
                    except TypeError:
                        rec.count("one_shot_iterable_rejected")   # a library that insists on a list is within the statement
                        continue
                    rec.count("one_shot_iterables_judged")
                    if got != want:
                        rec.violation(f"make_readable_bulk(<{how} of {len(entries)} entries>, save_report={save}) returned {len(got)} results "
                                      f"{'(none)' if not got else ''} that differ from the list call's {len(want)}", dict(case, how=how, save=save))
        # permutation
        if len(entries) >= 2:
            perm = list(range(len(entries)))
            rnd.shuffle(perm)
            try:
                res2 = lib.make_readable_bulk([entries[k] for k in perm], mode=mode, very_readable=vr)
                rec.count("permutations_judged")
                if res2 != [res[k] for k in perm]:
                    rec.violation(f"bulk of a permuted list differs from the permuted bulk result: {entries!r} perm {perm}", case)
            except Exception as ex:
                rec.violation(f"bulk of a permuted list raised {type(ex).__name__}: {ex}", case)
        # removal of invalid entries
        if any(not m[0] for m in meta):
            keep = [k for k, m in enumerate(meta) if m[0]]
            try:
                res3 = lib.make_readable_bulk([entries[k] for k in keep], mode=mode, very_readable=vr)
                rec.count("removals_judged")
                if res3 != [res[k] for k in keep]:
                    rec.violation(f"removing the invalid entries changed the other results: {entries!r}", case)
            except Exception as ex:
                rec.violation(f"bulk without the invalid entries raised {type(ex).__name__}: {ex}", case)
        if len(rec.samples) < 2 and len(entries) >= 3:
            rec.sample({"entries": [repr(e) for e in entries], "mode": mode, "very_readable": vr, "bulk_result": [repr(o) for o in res]})


def replay(case):
    from cmv.lib import Lib
    lib = Lib()
    entries = [eval(e) for e in case["entries"]]
    res = lib.make_readable_bulk(entries, mode=case["mode"], very_readable=case["vr"])
    ok = len(res) == len(entries)
    for e, out in zip(entries, res):
        large = e[2] if len(e) == 3 else False
        p = lib.ColorPair(e[0], e[1], large)
        single = p.make_readable(mode=case["mode"], very_readable=case["vr"]) if p.is_valid else None
        line = f"{e!r}: bulk {out!r}; single {single!r}"
        if p.is_valid:
            rb = PW.readback(out[0])
            r = wcag.ratio(rb, tuple(p.bg.rgb)) if rb else None
            want = wcag.LABEL[wcag.level(r, large)] if r else None
            line += f"; read-back ratio {r} -> {want!r}"
            ok = ok and out[0] == single[0] and out[1] == want
        else:
            ok = ok and out[1] not in ("readable", "very readable")
        print(line)
    print("holds" if ok else "VIOLATED")
    return ok
