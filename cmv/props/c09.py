"""C09 - CLI: input files are never touched and the rest of the stylesheet
is preserved."""
import os
import re
import shutil
import subprocess
import sys
import tempfile

from cmv import clirun, env
from cmv.audit import IOWindow
from cmv.gen import colors as G, stylesheets as SS
from cmv.oracles import csscolor, cssmodel
from cmv.props import c08

ID = "C09"
LEVEL = "exploration"
ORACLES = ("csscolor", "cssmodel")
RULE = ("C08's generated sheets plus carry-through material in adjusted and unadjusted rules alike (@import/@charset/@namespace/@font-face/@keyframes/"
        "@page/@layer/unknown at-rules with and without blocks, strings and url() containing braces/semicolons/comment markers, escapes, odd !important "
        "spacing, vendor hacks, empty rules, doubled semicolons, non-ASCII, CRLF) x all settings x single-file and directory invocation (explicit targets and directory entries that are "
        "symbolic links to sheets kept elsewhere; a sheet declaring @charset ISO-8859-1 with Latin-1 bytes, which may be skipped or carried through intact; runs over a stale, longer output of an earlier run, every other one not valid UTF-8). Observed: "
        "SHA-256 of every input and the directory listing before/after; audit-hook log of every write-open / filesystem mutation (in-process runs); "
        "strace -f file-syscall log (subprocess sample); canonical structure (cssmodel.canonical) of <name>_cm.css vs the input: identical except the "
        "value of the deciding color declaration of a carded rule or of the custom-property definition it references. Non-trivial = sheet with >= 1 "
        "adjusted rule and >= 3 carry-through constructs; distinct = sheet text x settings.")
ASSUMPTIONS = ["tinycss2 tokenizer for the canonical form (type+value token comparison, whitespace runs collapsed, empty statements dropped)",
               "strace sees every file-system syscall of the child process tree"]
MUST_OBSERVE = {"any": ["runs_judged", "inputs_hashed", "audit_windows", "structure_compared", "dir_mode_runs"]}
SIZES = {"quick": dict(inproc=14, sub=2), "thorough": dict(inproc=260, sub=25)}
SHARD_TIMEOUT = {"quick": 900, "thorough": 7200}
K_ERRNODE = c08.K_ERRNODE
# explicit single-file targets: ordinary, already ending in _cm, several dots, spaces, leading dot, non-ASCII
SINGLE_NAMES = ["sheet.css", "sheet.css", "admin_cm.css", "normalize.min.css", "my sheet.css", ".hidden.css", "a_cm_cm.css", "thème.css", "x.y.z.css", "_cm.css",
                "print.css.css", "normalize.css.v8.css", "app.css.bundle.css", "admin_cms.css", "THEME.CSS", "Print.Css",
                os.path.join("vendor", "normalize.css-8.0.1", "normalize.css"), os.path.join("my.css.d", "a.css")]
DIR_NAMES = ["sheet0.css", "vendor.min.css", "print styles.css"]
DIR_NAME_SETS = [["sheet0.css", "vendor.min.css", "print styles.css"], ["app.css.bundle.css", "grid_cmss.css", "print.css.css"],
                 ["a.css", os.path.join("normalize.css-8.0.1", "normalize.css"), "admin_cms.css"],
                 [".hidden.css", os.path.join(".storybook", "preview.css"), "z.css"]]


def shards(tier, seed):
    z = SIZES[tier]
    out = [{"kind": "inproc", "seed": seed, "idx": i, "n": z["inproc"]} for i in range(14)]
    out += [{"kind": "strace", "seed": seed, "idx": i, "n": z["sub"]} for i in range(2)]
    return out


def allowed_diff(cin, cout, carded, allowed_vars, path, diffs, top=True):
    """Walk two canonical rule lists in parallel; append descriptions of
    differences that are not permitted."""
    if len(cin) != len(cout):
        diffs.append(f"{path}: {len(cin)} items in the input, {len(cout)} in the output (first input kinds {[x[0] for x in cin][:8]}, output {[x[0] for x in cout][:8]})")
        return
    for i, (a, b) in enumerate(zip(cin, cout)):
        if a == b:
            continue
        if a[0] != b[0]:
            diffs.append(f"{path}[{i}]: {a[0]} became {b[0]}")
            continue
        if a[0] == "rule":
            if a[1] != b[1]:
                diffs.append(f"{path}[{i}]: selector changed")
                continue
            sel = selector_of(a[1])
            da, db = a[2], b[2]
            if len(da) != len(db):
                diffs.append(f"{path}[{i}] rule {sel!r}: {len(da)} declarations/comments in the input, {len(db)} in the output")
                continue
            last_color = max([k for k, d in enumerate(da) if d[0] == "decl" and d[1].lower() == "color"], default=None)
            for k, (x, y) in enumerate(zip(da, db)):
                if x == y:
                    continue
                ok = False
                if x[0] == "decl" and y[0] == "decl" and x[1] == y[1] and x[3] == y[3]:
                    # only the colour may change: comments written inside the value stay, in order
                    same_comments = [t for t in x[2] if t[0] == "comment"] == [t for t in y[2] if t[0] == "comment"]
                    if k == last_color and sel in carded and same_comments:
                        ok = True
                    elif top and sel in (":root", "html") and x[1].startswith("--") and x[1] in allowed_vars and same_comments:
                        ok = True
                if not ok:
                    diffs.append(f"{path}[{i}] rule {sel!r}: item {k} changed from {show(x)} to {show(y)}")
        elif a[0] == "at":
            if a[1] != b[1] or a[2] != b[2]:
                diffs.append(f"{path}[{i}]: at-rule @{a[1]} prelude changed")
            elif isinstance(a[3], tuple) and a[3] and a[3][0] != "tokens" and isinstance(b[3], tuple):
                allowed_diff(list(a[3]), list(b[3]), carded, allowed_vars, f"{path}[{i}]@{a[1]}", diffs, top=False)
            elif a[3] == () and b[3] == ():
                pass
            else:
                diffs.append(f"{path}[{i}]: body of @{a[1]} changed")
        else:
            diffs.append(f"{path}[{i}]: {a[0]} changed from {show(a)} to {show(b)}")


def show(x):
    return repr(x)[:160]


def selector_of(prelude_canon):
    out = []
    for t in prelude_canon:
        if t == ("ws",):
            out.append(" ")
        elif t[0] in ("ident", "literal"):
            out.append(t[1])
        elif t[0] == "hash":
            out.append("#" + t[1])
        elif t[0] == "string":
            out.append('"' + t[1] + '"')
        elif t[0] == "[] block":
            out.append("[" + selector_of(t[1]) + "]")
        elif t[0] == "function":
            out.append(t[1] + "(" + selector_of(t[2]) + ")")
        else:
            out.append(str(t[1]) if len(t) > 1 else "")
    return "".join(out).strip()


def judge_file(rec, css, out_css, cards_for_file, st, fname, stderr, case):
    target = 7.0 if st["premium"] else 4.5
    model = c08.Model(css, st["default_bg"])
    if out_css is None:
        key = c08.file_errnode_key(model, target) if "Error processing" in stderr else None
        rec.violation(f"no {fname[:-4]}_cm.css written for valid stylesheet {fname} (stderr {stderr.strip()[:200]!r})", case, key=key)
        return
    carded = {c["selector"] for c in cards_for_file}
    allowed_vars = set()
    for r in model.rules:
        if r.selector in carded:
            allowed_vars.update(cssmodel.var_names(model.info[r.index]["text_raw"] or ""))
    rec.count("structure_compared")
    try:
        cin, cout = cssmodel.canonical(css), cssmodel.canonical(out_css)
    except Exception as e:
        rec.inconc(f"canonical form failed: {type(e).__name__}: {e}")
        return
    diffs = []
    # selectors in `carded` are serialised selector texts; map canonical preludes through the same serialisation
    allowed_diff(cin, cout, CardSet(carded), allowed_vars, "sheet", diffs)
    if cssmodel.count_errors(out_css) > cssmodel.count_errors(css):
        diffs.append("the output has parse errors the input did not have")
    if diffs:
        rec.violation(f"{fname}: output differs from the input beyond the adjusted colour values: " + " | ".join(diffs[:3]), case)
    else:
        n_carry = sum(1 for x in cin if x[0] in ("at", "comment")) + sum(1 for x in cin if x[0] == "rule" and not any(d[0] == "decl" and d[1].lower() == "color" for d in x[2]))
        if carded and n_carry >= 3:
            rec.nontrivial((css, repr(st)))


class CardSet:
    """Membership test by selector text, tolerant to whitespace differences
    between the canonical re-rendering and tinycss2's serialisation."""

    def __init__(self, sels):
        self.s = {re.sub(r"\s+", "", x) for x in sels}

    def __contains__(self, sel):
        return re.sub(r"\s+", "", sel) in self.s


def one_run(rec, lib, rnd, d, dir_mode, st, inproc):
    """Build a scratch tree, run the command, judge. Returns nothing."""
    files = {}
    nfiles = rnd.choice([2, 3]) if dir_mode else 1
    dir_names = rnd.choice(DIR_NAME_SETS)
    single_name = rnd.choice(SINGLE_NAMES) if inproc else rnd.choice(["thème.css", "my sheet.css", "sheet.css", "admin_cm.css"])
    dbg = (255, 255, 255) if st["default_bg"] is None else csscolor.read(st["default_bg"])
    for k in range(nfiles):
        sheet = SS.make_sheet(rnd, premium=st["premium"], default_bg=dbg, rich=True, tag=f"f{k}r")
        name = dir_names[k] if dir_mode else single_name
        rel = name if (not dir_mode or k == 0 or os.sep in name) else os.path.join("sub", name)
        files[rel] = sheet
    # sometimes the stylesheets live in a sub-directory of the working directory: outputs must be beside the
    # inputs, the report in the *working directory*
    prefix = "proj" if rnd.random() < 0.3 else ""
    if prefix:
        files = {os.path.join(prefix, rel): sh for rel, sh in files.items()}
    link_real = None
    if not dir_mode and rnd.random() < 0.15:
        # the argument is a symbolic link to a stylesheet kept elsewhere: the output belongs beside the *given* path
        (rel0, sheet0), = files.items()
        link_real = os.path.join("shared", "base.css")
        os.makedirs(os.path.join(d, "shared"), exist_ok=True)
        with open(os.path.join(d, link_real), "w", encoding="utf-8", newline="") as f:
            f.write(sheet0.text)
        os.makedirs(os.path.dirname(os.path.join(d, rel0)) or d, exist_ok=True)
        os.symlink(os.path.relpath(os.path.join(d, link_real), os.path.dirname(os.path.join(d, rel0)) or d), os.path.join(d, rel0))
        rec.count("symlink_arguments")
    for rel, sheet in files.items():
        if link_real:
            break
        p = os.path.join(d, rel)
        os.makedirs(os.path.dirname(p), exist_ok=True)
        with open(p, "w", encoding="utf-8", newline="") as f:
            f.write(sheet.text)
    # bystander files that must not be touched or consumed
    with open(os.path.join(d, "notes.txt"), "w") as f:
        f.write("not a stylesheet\n")
    linked = {}
    if dir_mode and rnd.random() < 0.5:
        # one of the directory's entries is a symbolic link to a stylesheet kept elsewhere (outside the directory given when
        # the run is started from the parent): its result belongs beside the *entry*, under the entry's name
        lrel = os.path.join(prefix, "css", rnd.choice(["theme.css", "a-link.css", "zz-link.css"]))
        real = os.path.join("shared-assets", "palette.css")
        lsheet = SS.make_sheet(rnd, premium=st["premium"], default_bg=dbg, rich=True, tag="lnk")
        os.makedirs(os.path.join(d, "shared-assets"), exist_ok=True)
        with open(os.path.join(d, real), "w", encoding="utf-8", newline="") as f:
            f.write(lsheet.text)
        os.makedirs(os.path.dirname(os.path.join(d, lrel)), exist_ok=True)
        os.symlink(os.path.relpath(os.path.join(d, real), os.path.dirname(os.path.join(d, lrel))), os.path.join(d, lrel))
        files[lrel] = lsheet
        if not prefix:
            files[real] = lsheet          # the target lies inside the directory given: it is an input in its own right
        linked = {lrel: real}
        rec.count("dir_runs_with_a_linked_entry")
    legacy = None
    if dir_mode and rnd.random() < 0.6:
        # a stylesheet in a legacy encoding, declared by @charset: whether the tool reads it properly or reports and skips it,
        # it must not write an output whose comments and strings differ from the input's
        base_sheet = SS.make_sheet(rnd, premium=st["premium"], default_bg=dbg, rich=False, tag="lg")
        ltext = ('@charset "ISO-8859-1";\n/* \u00a9 2009 M\u00fcller & S\u00f6hne \u2013 legacy sheet */\n'.replace("\u2013", "-")
                 + '.lg-note::after { content: "caf\u00e9 \u00bb"; color: #777777; background-color: #ffffff }\n' + base_sheet.text)
        ltext = ltext.encode("latin-1", "replace").decode("latin-1")
        legacy = (os.path.join(prefix, rnd.choice(["legacy-latin1.css", os.path.join("sub", "zz-latin1.css")])), ltext)
        lp = os.path.join(d, legacy[0])
        os.makedirs(os.path.dirname(lp), exist_ok=True)
        with open(lp, "wb") as f:
            f.write(ltext.encode("latin-1"))
        rec.count("legacy_encoding_sheets")
    stale = None
    if rnd.random() < 0.3 and not link_real:
        # an output of an earlier run is already there, longer than the new one will be: it is replaced as a whole
        stale = sorted(files)[0][:-4] + "_cm.css"
        with open(os.path.join(d, stale), "wb") as f:
            # every other one as an editor re-saved it in a legacy encoding (not valid UTF-8): it is an output location, never read
            f.write(b"/* caf\xe9 \xff */\n" if rnd.random() < 0.5 else b"")
            f.write(("/* output of an earlier run */\n" + "".join(f".old-rule-{j} {{ color: #123456; margin: {j}px }}\n" for j in range(400 + 40 * len(files[sorted(files)[0]].text) // 1000))).encode("utf-8"))
        rec.count("runs_over_a_stale_longer_output")
    before = clirun.snapshot(d)
    target_arg = (prefix or ".") if dir_mode else ("./" + os.path.join(prefix, single_name))
    if rnd.random() < 0.2:
        target_arg = os.path.join(d, target_arg)     # absolute path argument
        rec.count("absolute_path_arguments")
    args = c08.cli_args(target_arg, st)
    case = {"files": {rel: s.text for rel, s in files.items()}, "settings": st, "dir_mode": dir_mode, "arg": target_arg, "linked": linked,
            "legacy": list(legacy) if legacy else None}
    if prefix:
        rec.count("runs_from_parent_directory")
    events = None
    if inproc:
        with IOWindow(d, capture_fds=False) as w:
            rc, out, err = clirun.run(args, d, inprocess=True)
        events = w.events
        rec.count("audit_windows")
    else:
        rc, out, err, events = run_strace(args, d)
        if events is None:
            rec.count("skipped:strace unavailable")
        else:
            rec.count("strace_runs")
    rec.ev(len(files))
    rec.count("runs_judged")
    if dir_mode:
        rec.count("dir_mode_runs")
    if rc != 0:
        rec.violation(f"cm-colors exited with {rc!r}; stderr {err[-300:]!r}", case)
        return
    after = clirun.snapshot(d)
    # ---- inputs untouched, nothing else created
    rec.count("inputs_hashed", len(before))
    expected_new = {"cm_colors_report.html"}
    for rel in files:
        expected_new.add(rel[:-4] + "_cm.css")
    if legacy:
        expected_new.add(legacy[0][:-4] + "_cm.css")
    for rel, v in before.items():
        if rel == stale:
            continue
        if after.get(rel) != v:
            rec.violation(f"input path {rel!r} was modified or removed by the run ({v[0]} -> {after.get(rel, ('missing',))[0]})", case)
            return
    extra = sorted(set(after) - set(before) - expected_new)
    if extra:
        rec.violation(f"the run created paths other than the sibling _cm.css files and the report: {extra[:5]}", case)
        return
    if events is not None:
        bad = []

        def rel_of(path):
            return os.path.relpath(os.path.realpath(os.path.join(d, path)), os.path.realpath(d))

        def transient(path):
            # a scratch file that did not exist before the run and does not exist after it (e.g. "<output>.tmp" renamed onto
            # the output): "nothing else is created" is about what the run leaves behind
            r = rel_of(path)
            return r not in before and r not in after and not r.startswith("..")
        for ev in events:
            if ev[0] in ("open-for-write",):
                if rel_of(ev[1]) in expected_new or transient(ev[1]):
                    continue
            elif ev[0] in ("os.chdir",):
                continue
            elif ev[0] == "os.rename" and transient(ev[1]) and rel_of(ev[2]) in expected_new:
                continue
            elif ev[0] == "os.remove" and transient(ev[1]):
                continue
            elif ev[0] in ("rename", "renameat", "renameat2", "unlink", "unlinkat"):
                # strace form: the quoted paths of the call
                paths = [strace_path(x) for x in re.findall(r'"((?:[^"\\]|\\.)*)"', ev[1])]
                if ev[0].startswith("rename") and len(paths) == 2 and transient(paths[0]) and rel_of(paths[1]) in expected_new:
                    continue
                if ev[0].startswith("unlink") and len(paths) == 1 and transient(paths[0]):
                    continue
            bad.append(ev)
        if bad:
            rec.violation(f"the run performed file-system writes other than creating the _cm.css files and the report: {bad[:4]}", case)
            return
    # ---- structure
    if clirun.parse_stdout(out)["no_files"]:
        # the tool does not regard the argument as a stylesheet (e.g. an upper-case extension): nothing to preserve, and the
        # untouched-input / nothing-created clauses above have already been judged
        rec.count("argument_not_taken_as_stylesheet")
        return
    cards = clirun.parse_report(os.path.join(d, "cm_colors_report.html")) or []
    for rel, sheet in files.items():
        op = os.path.join(d, rel[:-4] + "_cm.css")
        out_css = None
        if os.path.exists(op):
            with open(op, encoding="utf-8", errors="replace", newline="") as f:
                out_css = f.read()
        if stale == rel[:-4] + "_cm.css" and after.get(stale) == before.get(stale):
            out_css = None        # the earlier run's output was left as it was: nothing was written for this sheet
        mine = [c for c in cards if c["file"] == os.path.basename(rel)]
        judge_file(rec, sheet.text, out_css, mine, st, os.path.basename(rel), err, dict(case, file=rel))
        for sel, fs in sheet.features.items():
            for ft in fs:
                if ft in ("hack", "rootcolor", "important", "upper") or ft.startswith("nested"):
                    rec.count("feature:" + ft)
    if legacy:
        op = os.path.join(d, legacy[0][:-4] + "_cm.css")
        if os.path.exists(op):
            rec.count("legacy_encoding_output_judged")
            raw = open(op, "rb").read()
            try:
                out_css = raw.decode("utf-8")
            except UnicodeDecodeError:
                out_css = raw.decode("latin-1")
            mine = [c for c in cards if c["file"] == os.path.basename(legacy[0])]
            judge_file(rec, legacy[1], out_css.replace("\r\n", "\n"), mine, st, os.path.basename(legacy[0]), err, dict(case, file=legacy[0]))
        else:
            rec.count("legacy_encoding_sheet_skipped_by_the_tool")
    if len(rec.samples) < 2 and cards:
        rec.sample({"settings": st, "dir_mode": dir_mode, "files": sorted(files), "created": sorted(set(after) - set(before)),
                    "write_events": [e[1] for e in (events or []) if e[0] == "open-for-write"][:6], "cards": len(cards), "verdict": "inputs byte-identical; canonical structure equal up to adjusted colour values"})


_SYSC = re.compile(r"^(\d+\s+)?(\w+)\((.*)\)\s+=\s+(-?\d+|\?)")


def strace_path(path):
    try:   # strace prints non-ASCII bytes as octal escapes
        return path.encode("latin-1", "backslashreplace").decode("unicode_escape").encode("latin-1").decode("utf-8")
    except (UnicodeError, ValueError):
        return path


def run_strace(args, cwd):
    log = os.path.join(cwd, "..", "strace-%d.log" % os.getpid())
    boot = ("import sys; sys.dont_write_bytecode=True; sys.path.insert(0, %r); from cm_colors.cli.main import main; main()" % env.SRC)
    e = dict(os.environ)
    e.update({"PYTHONDONTWRITEBYTECODE": "1", "PYTHONIOENCODING": "utf-8", "NO_COLOR": "1"})
    try:
        p = subprocess.run(["strace", "-f", "-e", "trace=%file", "-o", log, sys.executable, "-c", boot] + list(args), cwd=cwd, env=e,
                           stdout=subprocess.PIPE, stderr=subprocess.PIPE, timeout=300)
    except (OSError, subprocess.TimeoutExpired):
        return 1, "", "strace failed", None
    events = []
    try:
        with open(log, errors="replace") as f:
            for line in f:
                m = _SYSC.match(line)
                if not m:
                    continue
                name, argtxt, ret = m.group(2), m.group(3), m.group(4)
                if ret.startswith("-") or ret == "?":
                    continue
                if name in ("open", "openat", "creat"):
                    if any(fl in argtxt for fl in ("O_WRONLY", "O_RDWR", "O_CREAT", "O_TRUNC", "O_APPEND")) or name == "creat":
                        pm = re.search(r'"((?:[^"\\]|\\.)*)"', argtxt)
                        path = strace_path(pm.group(1) if pm else argtxt)
                        if path in ("/dev/null", "/dev/tty") or path.startswith("/proc/") or path.startswith("/dev/"):
                            continue
                        events.append(("open-for-write", path, argtxt[-60:]))
                elif name in ("rename", "renameat", "renameat2", "unlink", "unlinkat", "mkdir", "mkdirat", "rmdir", "chmod", "fchmodat", "chown", "symlink", "symlinkat",
                              "link", "linkat", "truncate", "utimensat", "mknod"):
                    events.append((name, argtxt[:160], ""))
    except OSError:
        return p.returncode, p.stdout.decode("utf-8", "replace"), p.stderr.decode("utf-8", "replace"), None
    finally:
        try:
            os.remove(log)
        except OSError:
            pass
    if b"ptrace" in p.stderr and not events and p.returncode != 0:
        return p.returncode, "", p.stderr.decode("utf-8", "replace"), None
    return p.returncode, p.stdout.decode("utf-8", "replace"), p.stderr.decode("utf-8", "replace"), events


def work(shard, rec):
    from cmv.lib import Lib
    lib = Lib()
    scratch = os.path.join(os.environ.get("CMV_SCRATCH", tempfile.gettempdir()), f"c09-{shard['kind']}-{shard['idx']}")
    os.makedirs(scratch, exist_ok=True)
    rnd = G.rng("c09", shard["kind"], shard["seed"], shard["idx"])
    lib.mod("main")
    lib.mod("optimisation")
    for si in range(shard["n"]):
        st = c08.settings(rnd)
        d = os.path.join(scratch, f"t{si}")
        shutil.rmtree(d, ignore_errors=True)
        os.makedirs(d)
        try:
            one_run(rec, lib, rnd, d, dir_mode=(si % 3 == 2), st=st, inproc=(shard["kind"] == "inproc"))
        finally:
            shutil.rmtree(d, ignore_errors=True)


def replay(case):
    from cmv.rec import Rec
    d = tempfile.mkdtemp(prefix="c09-replay-")
    st = case["settings"]
    for rel, text in case["files"].items():
        p = os.path.join(d, rel)
        os.makedirs(os.path.dirname(p), exist_ok=True)
        with open(p, "w", encoding="utf-8", newline="") as f:
            f.write(text)
    before = clirun.snapshot(d)
    rc, out, err = clirun.run(c08.cli_args(case.get("arg") or ("." if case["dir_mode"] else "./" + sorted(case["files"])[0]), st), d, inprocess=False)
    after = clirun.snapshot(d)
    print("settings", st, "dir_mode", case["dir_mode"])
    print(out)
    print(err[-800:])
    print("created:", sorted(set(after) - set(before)), "modified:", [k for k in before if after.get(k) != before[k]])
    rec = Rec()
    cards = clirun.parse_report(os.path.join(d, "cm_colors_report.html")) or []
    for rel, text in case["files"].items():
        op = os.path.join(d, rel[:-4] + "_cm.css")
        out_css = open(op, encoding="utf-8", newline="").read() if os.path.exists(op) else None
        if case.get("file") in (None, rel):
            print(f"---- {rel}\n{text}\n---- {rel[:-4]}_cm.css\n{out_css}")
        judge_file(rec, text, out_css, [c for c in cards if c["file"] == os.path.basename(rel)], st, os.path.basename(rel), err, {})
    for v in rec.viol:
        print("VIOLATED:", v["what"], "| key:", v["key"])
    shutil.rmtree(d, ignore_errors=True)
    ok = not rec.viol and all(after.get(k) == v for k, v in before.items())
    print("holds" if ok else "VIOLATED")
    return ok
