"""C15 - results are pure functions of the arguments: no history or thread
dependence; make_readable does not alter the ColorPair."""
import copy
import json
import os
import subprocess
import sys
import tempfile
import threading
import time

from cmv import cli, env
from cmv.fresh import run_probe, to_py
from cmv.gen import colors as G, spellings as SP
from cmv.oracles import wcag

ID = "C15"
LEVEL = "exploration"
ORACLES = ("wcag",)
RULE = ("probe = (pair in a random spelling, large, mode, very_readable) with op in {fix, label, bulk}. Observations of one probe that must be ==: "
        "(a) a fresh interpreter per probe under PYTHONHASHSEED in {0,1,4242,random}; (b) after a generated history of 5-60 operations built around "
        "the probe (same text other backgrounds, same background other texts, same pair every other setting, other spellings of the same colours, bulk "
        "lists containing the probe, in-process CLI runs on sheets containing the pair, show=True/save_report=True calls, noise); (c) at every "
        "position of a bulk list; (d) repeated on one ColorPair object; (e) from 8 threads x 6 operations with switch interval 1e-5 and a "
        "sys.monitoring LINE callback that yields inside cm_colors code, every round's pool holding unrepairable mode-2 pairs, long mode-1 chains and "
        "pairs whose result the chroma descent decides; vars() of the pair and its colours before/after make_readable. "
        "Non-trivial = probe whose pair needs fixing; distinct = probe x history.")
ASSUMPTIONS = ["thread schedules are sampled, not enumerated (distinct call/return orders are counted in the evidence)",
               "module-state drift (fingerprint of cm_colors.* module globals, function defaults, functools caches) is evidence, not a violation"]
MUST_OBSERVE = {"any": ["fresh_observations", "history_observations", "bulk_position_observations", "repeat_observations", "thread_observations", "fingerprints_compared", "history_ops", "fresh_thread_observations"]}
SIZES = {"quick": dict(probes=10, hist=2, rounds=2), "thorough": dict(probes=120, hist=4, rounds=8)}
SHARD_TIMEOUT = {"quick": 900, "thorough": 7200}


def shards(tier, seed):
    z = SIZES[tier]
    out = [{"kind": "history", "seed": seed, "idx": i, "n": z["probes"], "hist": z["hist"]} for i in range(12)]
    out += [{"kind": "threads", "seed": seed, "idx": i, "rounds": z["rounds"]} for i in range(4)]
    out += [{"kind": "fresh_threads", "seed": seed, "idx": i, "n": 2 if tier == "quick" else 20} for i in range(4)]
    return out


def alias_probe(rnd, op=None):
    """Text given as a float tuple over {0.0, 1.0} (fractions of full scale): equal and hash-equal to the int tuple
    (1, 0, 0) etc., which denotes a different colour - the shape that exposes a cache keyed on ==."""
    bits = [rnd.choice([0.0, 1.0]) for _ in range(3)]
    if sum(bits) in (0.0, 3.0):
        bits[rnd.randrange(3)] = 1.0 - bits[0]
    t = tuple(int(255 * x) for x in bits)
    b = rnd.choice([(255, 255, 255), (0, 0, 0), (40, 40, 40), (230, 230, 230)])
    return {"op": op or rnd.choice(["fix", "label", "bulk"]), "text": list(bits), "tk": "tuple", "bg": list(b), "bk": "tuple",
            "large": rnd.random() < 0.3, "mode": rnd.randrange(3), "vr": rnd.random() < 0.3, "t": list(t), "b": list(b), "alias": True}


def str_alias_probe(rnd, op=None):
    """Text given as a float tuple whose str() is itself a legal (informal) colour string with another meaning:
    (0.6, 0.6, 0.6) is 60% grey, the string '(0.6, 0.6, 0.6)' is channels 0.6 -> (1, 1, 1)."""
    v = [round(rnd.choice([0.2, 0.4, 0.5, 0.6, 0.8, rnd.random()]), 2) for _ in range(3)]
    t = [int(round(x * 255)) for x in v]
    b = rnd.choice([(255, 255, 255), (0, 0, 0), (250, 250, 240)])
    return {"op": op or rnd.choice(["fix", "label", "bulk"]), "text": v, "tk": "tuple", "bg": list(b), "bk": "tuple", "large": False,
            "mode": rnd.randrange(3), "vr": False, "t": t, "b": list(b), "str_alias": True}


def translucent_bg_probe(rnd, op=None):
    """Opaque text on a translucent background (composited over white by definition): exposes a process-wide default
    backdrop that some earlier operation changed."""
    a = rnd.choice(["0.4", "0.5", "0.75"])
    bgc = rnd.choice([(0, 0, 0), (20, 40, 200), (255, 0, 0)])
    bg = "rgba(%d, %d, %d, %s)" % (bgc + (a,))
    t = rnd.choice([(17, 17, 17), (119, 119, 119), (250, 250, 250)])
    comp = [int(float(a) * c + (1 - float(a)) * 255 + 0.5) for c in bgc]
    return {"op": op or rnd.choice(["fix", "label", "bulk"]), "text": list(t), "tk": "tuple", "bg": bg, "bk": "rgba",
            "large": False, "mode": rnd.randrange(3), "vr": False, "t": list(t), "b": comp, "translucent_bg": True}


def make_probe(rnd, op=None):
    r0 = rnd.random()
    if r0 < 0.12:
        return alias_probe(rnd, op)
    if r0 < 0.2:
        return translucent_bg_probe(rnd, op)
    if r0 < 0.27:
        return str_alias_probe(rnd, op)
    for _ in range(50):
        large, vr = rnd.random() < 0.4, rnd.random() < 0.4
        r = rnd.random()
        if r < 0.5:
            g = G.below(rnd, large, vr, lo=0.4)
        elif r < 0.65:
            g = G.near_threshold(rnd)
            g = (g[0], g[1]) if g else None
        elif r < 0.83:
            # vivid text on the gamut surface against an arbitrary mid-tone background (mostly not repairable): the pairs whose
            # result is decided by the chroma-descent phase rather than by the lightness search (about 1 call in 13 here, 1 in
            # 1,500 among uniform pairs)
            t = [0, rnd.randrange(225, 256), rnd.randrange(256)]
            rnd.shuffle(t)
            g = (tuple(t), tuple(rnd.randrange(20, 200) for _ in range(3)))
        else:
            g = (G.uniform(rnd), G.uniform(rnd))
        if not g:
            continue
        t, b = g
        tk, tsp = rnd.choice(SP.available(tuple(t)))
        bk, bsp = rnd.choice(SP.available(tuple(b)))
        return {"op": op or rnd.choice(["fix", "fix", "fix", "label", "bulk"]), "text": SP.jsonable(tsp), "tk": tk, "bg": SP.jsonable(bsp), "bk": bk,
                "large": large, "mode": rnd.randrange(3), "vr": vr, "t": list(t), "b": list(b)}
    raise RuntimeError("could not draw a probe")


def fresh(probe, hashseed):
    e = dict(os.environ)
    e["PYTHONHASHSEED"] = str(hashseed)
    e["PYTHONDONTWRITEBYTECODE"] = "1"
    p = subprocess.run([sys.executable, "-m", "cmv.fresh", json.dumps(probe)], cwd=env.HOME, env=e, stdout=subprocess.PIPE, stderr=subprocess.PIPE, timeout=300)
    if p.returncode != 0:
        return "FRESH-FAILED: " + p.stderr.decode("utf-8", "replace")[-400:]
    return p.stdout.decode("utf-8", "replace")


def history_ops(rnd, probe, n):
    """Operations built *around* the probe."""
    t, b = tuple(probe["t"]), tuple(probe["b"])
    ops = []
    if probe.get("alias"):
        # the hash-equal spellings with another meaning, issued before the probe
        ints = [int(x) for x in probe["text"]]
        ops.append(("fix", ints, "tuple", probe["bg"], probe["bk"], probe["large"], probe["mode"], probe["vr"]))
        ops.append(("fix", [bool(x) for x in ints], "tuple", probe["bg"], probe["bk"], probe["large"], probe["mode"], probe["vr"]))
        ops.append(("label", ints, probe["b"]))
    if probe.get("str_alias"):
        # the strings that spell the same characters as the tuples (and as the list forms)
        for bgform in (tuple(probe["bg"]), list(probe["bg"])):
            ops.append(("fix", str(tuple(probe["text"])), "str", str(tuple(probe["bg"])), "str", probe["large"], probe["mode"], probe["vr"]))
        ops.append(("fix", str(list(probe["text"])), "str", probe["bg"], probe["bk"], probe["large"], probe["mode"], probe["vr"]))
        ops.append(("fix", repr(tuple(probe["text"])).replace(" ", ""), "str", probe["bg"], probe["bk"], probe["large"], probe["mode"], probe["vr"]))
    for _ in range(n):
        k = rnd.randrange(12)
        if k == 0:    # same text, other background
            ops.append(("fix", probe["text"], probe["tk"], list(G.uniform(rnd)), "tuple", rnd.random() < 0.5, rnd.randrange(3), rnd.random() < 0.5))
        elif k == 1:  # same background, other text
            ops.append(("fix", list(G.uniform(rnd)), "tuple", probe["bg"], probe["bk"], rnd.random() < 0.5, rnd.randrange(3), rnd.random() < 0.5))
        elif k in (2, 3):  # same pair, other setting
            ops.append(("fix", probe["text"], probe["tk"], probe["bg"], probe["bk"], rnd.random() < 0.5, rnd.randrange(3), rnd.random() < 0.5))
        elif k == 4:  # other spelling of the same colours
            tk, tsp = rnd.choice(SP.available(t))
            bk, bsp = rnd.choice(SP.available(b))
            ops.append(("fix", SP.jsonable(tsp), tk, SP.jsonable(bsp), bk, probe["large"], probe["mode"], probe["vr"]))
        elif k == 5:  # bulk list containing the probe among others
            ops.append(("bulk", rnd.randrange(0, 4), rnd.randrange(3), rnd.random() < 0.5))
        elif k == 6:  # in-process CLI run on a sheet containing the pair
            ops.append(("cli", rnd.randrange(3), rnd.random() < 0.5))
            if rnd.random() < 0.6:
                # ... and CLI runs that end early: empty directory, directory holding only outputs, a non-stylesheet path;
                # with a non-default --default-bg
                ops.append(("cli-early", rnd.choice(["empty", "outputs-only", "not-css"]), rnd.choice(["black", "#123456", "rgb(200, 0, 0)", "white"])))
        elif k == 7:
            ops.append(("show", rnd.random() < 0.5, rnd.random() < 0.5))
        elif k == 8:  # neighbours of the probe's colours (memo keyed on a rounded/partial key)
            t2 = tuple(min(255, max(0, v + rnd.randrange(-1, 2))) for v in t)
            ops.append(("fix", list(t2), "tuple", list(b), "tuple", probe["large"], probe["mode"], probe["vr"]))
        elif k == 9:
            ops.append(("label", list(G.uniform(rnd)), list(G.uniform(rnd))))
        elif k == 10:  # swapped roles
            ops.append(("fix", list(b), "tuple", list(t), "tuple", probe["large"], probe["mode"], probe["vr"]))
        else:
            g = G.below(rnd, rnd.random() < 0.5, rnd.random() < 0.5)
            if g:
                ops.append(("fix", list(g[0]), "tuple", list(g[1]), "tuple", rnd.random() < 0.5, rnd.randrange(3), rnd.random() < 0.5))
    return ops


def run_op(lib, op, probe, scratch, rnd):
    try:
        if op[0] == "fix":
            _, text, tk, bg, bk, large, mode, vr = op
            lib.ColorPair(to_py(text, tk), to_py(bg, bk), large_text=large).make_readable(mode=mode, very_readable=vr)
        elif op[0] == "label":
            lib.ColorPair(tuple(op[1]), tuple(op[2])).is_readable
        elif op[0] == "bulk":
            _, pos, mode, vr = op
            others = [("#777", "#fff"), ((10, 20, 30), (200, 190, 180), True), ("rgb(120, 130, 140)", "black"), ("bad", "#fff")]
            me = (to_py(probe["text"], probe["tk"]), to_py(probe["bg"], probe["bk"]), probe["large"])
            lst = others[:pos] + [me] + others[pos:]
            lib.make_readable_bulk(lst, mode=mode, very_readable=vr)
        elif op[0] == "cli":
            _, mode, premium = op
            d = os.path.join(scratch, "clihist")
            os.makedirs(d, exist_ok=True)
            def css(v):
                return "rgb(%d, %d, %d)" % tuple(v)
            with open(os.path.join(d, "h.css"), "w") as f:
                f.write(f":root {{ --c: {css(probe['t'])}; }}\n.p {{ color: {css(probe['t'])}; background-color: {css(probe['b'])}; }}\n"
                        f".q {{ color: var(--c); background-color: {css(probe['b'])}; }}\n.r {{ color: #777; }}\n")
            args = ["h.css", "--mode", str(mode)] + (["--premium"] if premium else [])
            cli.run_inprocess(args, d)
        elif op[0] == "cli-early":
            _, layout, dbg = op
            d = os.path.join(scratch, "cli-" + layout)
            os.makedirs(d, exist_ok=True)
            target = "."
            if layout == "outputs-only":
                with open(os.path.join(d, "old_cm.css"), "w") as f:
                    f.write(".a { color: #777 }\n")
            elif layout == "not-css":
                with open(os.path.join(d, "readme.txt"), "w") as f:
                    f.write("x")
                target = "readme.txt"
            cli.run_inprocess([target, "--default-bg", dbg], d)
        elif op[0] == "show":
            import contextlib
            import io
            old = os.getcwd()
            os.chdir(scratch)
            try:
                with contextlib.redirect_stdout(io.StringIO()), contextlib.redirect_stderr(io.StringIO()):
                    lib.ColorPair(to_py(probe["text"], probe["tk"]), to_py(probe["bg"], probe["bk"]), large_text=probe["large"]).make_readable(
                        mode=probe["mode"], very_readable=probe["vr"], show=op[1], save_report=op[2])
            finally:
                os.chdir(old)
    except Exception as e:   # history operations are not judged here
        return type(e).__name__
    return None


def module_fingerprint():
    out = {}
    for name, m in sorted(sys.modules.items()):
        if m is None or not (name == "cm_colors" or name.startswith("cm_colors.")):
            continue
        for k, v in sorted(vars(m).items()):
            if k.startswith("__"):
                continue
            if isinstance(v, (dict, list, set)):
                out[f"{name}.{k}"] = (type(v).__name__, len(v), hash(repr(v)) if len(v) < 500 else len(v))
            elif callable(v) and getattr(v, "__module__", None) == name:
                d = getattr(v, "__defaults__", None)
                if d:
                    out[f"{name}.{k}.__defaults__"] = repr(d)
                if hasattr(v, "cache_info"):
                    out[f"{name}.{k}.cache"] = repr(v.cache_info())
                for attr, val in sorted(getattr(v, "__dict__", {}).items()):
                    if not attr.startswith("__"):
                        out[f"{name}.{k}.{attr}"] = repr(val)[:200]
    return out


def obj_fingerprint(pair):
    def fp(o):
        return {k: repr(v) for k, v in sorted(vars(o).items()) if k != "background_context"}
    return {"pair": {k: repr(v) for k, v in sorted(vars(pair).items()) if k not in ("text", "bg")},
            "text": fp(pair.text), "bg": fp(pair.bg), "ids": (id(pair.text), id(pair.bg))}


def work(shard, rec):
    from cmv.lib import Lib
    lib = Lib()
    scratch = os.path.join(os.environ.get("CMV_SCRATCH", tempfile.gettempdir()), f"c15-{shard['kind']}-{shard['idx']}")
    os.makedirs(scratch, exist_ok=True)
    if shard["kind"] == "history":
        histories(shard, rec, lib, scratch)
    elif shard["kind"] == "fresh_threads":
        fresh_threads(shard, rec, lib)
    else:
        threads(shard, rec, lib, scratch)


def fresh_threads(shard, rec, lib):
    """Fresh interpreters whose very first library calls are issued by 16 threads at once (a thread pool starting up):
    every thread's answer must equal the sequential answer. Timing dependent: a silent run is 'held on what was observed'."""
    rnd = G.rng("c15ft", shard["seed"], shard["idx"])
    for k in range(shard["n"]):
        probes = [make_probe(rnd, op=rnd.choice(["fix", "label", "bulk"])) for _ in range(2)]
        ref = [run_probe(lib, p) for p in probes]
        e = dict(os.environ)
        e["PYTHONDONTWRITEBYTECODE"] = "1"
        try:
            p = subprocess.run([sys.executable, "-m", "cmv.fresh_threads", json.dumps(probes), "16"], cwd=env.HOME, env=e,
                               stdout=subprocess.PIPE, stderr=subprocess.PIPE, timeout=600)
        except subprocess.TimeoutExpired:
            rec.inconc("fresh-interpreter thread run exceeded its watchdog")
            continue
        if p.returncode != 0:
            rec.inconc("fresh-interpreter thread run failed: " + p.stderr.decode("utf-8", "replace")[-300:])
            continue
        res = json.loads(p.stdout.decode("utf-8", "replace"))
        rec.count("fresh_thread_processes")
        for ti, row in enumerate(res):
            for pi, got in enumerate(row):
                rec.ev()
                rec.count("fresh_thread_observations")
                if got != ref[pi]:
                    rec.violation(f"probe {probe_desc(probes[pi])} issued by thread {ti} of 16 as the first use of the library in a fresh interpreter gives "
                                  f"{got} but {ref[pi]} sequentially", {"probe": probes[pi], "how": "fresh-threads"})
        rec.nontrivial(("fresh-threads", shard["idx"], k))


def histories(shard, rec, lib, scratch):
    rnd = G.rng("c15h", shard["seed"], shard["idx"])
    hashseeds = [0, 1, 4242, "random"]
    for m in ("optimisation", "visualiser", "html_report", "main", "color_metrics", "contrast", "conversions"):
        lib.mod(m)   # load lazily imported modules before the baseline fingerprint
    fp0 = module_fingerprint()
    for pi in range(shard["n"]):
        probe = make_probe(rnd)
        case = {"probe": probe}
        hs = hashseeds[(pi + shard["idx"]) % 4]
        ref = fresh(probe, hs)
        if ref.startswith("FRESH-FAILED"):
            rec.inconc("fresh interpreter probe failed: " + ref[:300])
            continue
        rec.count("fresh_observations"); rec.ev()
        rec.count(f"hashseed:{hs}")
        needs = wcag.ratio(tuple(probe["t"]), tuple(probe["b"])) < wcag.minimum(probe["large"], probe["vr"])
        # second fresh interpreter under a different hash seed
        ref2 = fresh(probe, hashseeds[(pi + shard["idx"] + 1) % 4])
        rec.count("fresh_observations"); rec.ev()
        if ref2 != ref:
            rec.violation(f"probe {probe_desc(probe)} differs between two fresh interpreters: {ref} vs {ref2}", dict(case, how="fresh-vs-fresh"))
            continue
        for h in range(shard["hist"]):
            ops = history_ops(rnd, probe, rnd.choice([5, 10, 20, 40, 60]))
            errs = 0
            for op in ops:
                if run_op(lib, op, probe, scratch, rnd):
                    errs += 1
            rec.count("history_ops", len(ops))
            rec.count("history_ops_raised", errs)
            got = run_probe(lib, probe)
            rec.count("history_observations"); rec.ev()
            if needs:
                rec.nontrivial((json.dumps(probe, sort_keys=True), h))
            if got != ref:
                rec.violation(f"probe {probe_desc(probe)} gives {got} after a history of {len(ops)} operations but {ref} in a fresh interpreter",
                              dict(case, how="history", ops=[list(o) for o in ops][:80], fresh=ref))
                break
        # (c) bulk positions
        if probe["op"] != "label":
            me = (to_py(probe["text"], probe["tk"]), to_py(probe["bg"], probe["bk"]), probe["large"])
            alone = lib.make_readable_bulk([me], mode=probe["mode"], very_readable=probe["vr"])[0]
            others = [("#777", "#fff"), ((90, 90, 90), (100, 100, 100)), ("nope", "#fff"), me]
            for pos in range(len(others) + 1):
                lst = others[:pos] + [me] + others[pos:]
                res = lib.make_readable_bulk(lst, mode=probe["mode"], very_readable=probe["vr"])
                rec.count("bulk_position_observations"); rec.ev()
                if res[pos] != alone:
                    rec.violation(f"probe {probe_desc(probe)} at bulk position {pos} gives {res[pos]!r} but {alone!r} alone", dict(case, how="bulk-position", pos=pos))
                    break
            # a 2-element entry after 3-element large=True entries (a size flag must not leak between entries)
            if not probe["large"]:
                me2 = (me[0], me[1])
                alone2 = lib.make_readable_bulk([me2], mode=probe["mode"], very_readable=probe["vr"])[0]
                lst = [("#777777", "#ffffff", True), ((90, 90, 90), (100, 100, 100), True), me2, ("#888", "#fff"), me2]
                res = lib.make_readable_bulk(lst, mode=probe["mode"], very_readable=probe["vr"])
                rec.count("bulk_position_observations", 2); rec.ev(2)
                if res[2] != alone2 or res[4] != alone2:
                    rec.violation(f"probe {probe_desc(probe)} as a 2-element bulk entry after large-text entries gives {res[2]!r} / {res[4]!r} but {alone2!r} alone",
                                  dict(case, how="bulk-after-large"))
        # (d) repeated on one object + object fingerprints
        pair = lib.ColorPair(to_py(probe["text"], probe["tk"]), to_py(probe["bg"], probe["bk"]), large_text=probe["large"])
        before = obj_fingerprint(pair)
        outs = []
        for k in range(3):
            outs.append(repr(pair.make_readable(mode=probe["mode"], very_readable=probe["vr"])))
            _ = pair.is_readable
            rec.count("repeat_observations"); rec.ev()
        # interleave another setting on the same object, then repeat
        pair.make_readable(mode=(probe["mode"] + 1) % 3, very_readable=not probe["vr"])
        outs.append(repr(pair.make_readable(mode=probe["mode"], very_readable=probe["vr"])))
        after = obj_fingerprint(pair)
        rec.count("fingerprints_compared")
        if len(set(outs)) != 1:
            rec.violation(f"probe {probe_desc(probe)} repeated on one ColorPair gives different results: {outs}", dict(case, how="repeat"))
        if before != after:
            diff = {k: (before[k], after[k]) for k in before if before[k] != after[k]}
            rec.violation(f"make_readable altered the ColorPair it was called on ({probe_desc(probe)}): {diff}", dict(case, how="mutation"))
        if len(rec.samples) < 2 and needs:
            rec.sample({"probe": probe_desc(probe), "fresh_interpreter(hashseed=%s)" % hs: ref, "after_histories": "identical", "bulk_positions": "identical", "object_vars": "unchanged"})
    fp1 = module_fingerprint()
    drift = sorted(k for k in set(fp0) | set(fp1) if fp0.get(k) != fp1.get(k))
    rec.count("module_state_drift_entries", len(drift))
    if drift:
        rec.sample({"module_state_drift": drift[:10]}, force=True)


def probe_desc(p):
    return f"{p['op']}({p['text']!r} on {p['bg']!r}, large={p['large']}, mode={p['mode']}, very_readable={p['vr']})"


def descent_decided_pairs(lib, rnd, want, tries=60):
    """Vivid-text pairs whose result is decided by the chroma-descent phase (found by asking the library twice, once with that phase
    switched off through attribute replacement; a selection heuristic only - when the routine has another name, unselected pairs of the
    same class are returned)."""
    opt = lib.mod("optimisation")
    name = "gradient_descent_oklch"
    orig = getattr(opt, name, None)
    out, spare = [], []
    for _ in range(tries):
        if len(out) >= want:
            break
        t = [0, rnd.randrange(225, 256), rnd.randrange(256)]
        rnd.shuffle(t)
        b = [rnd.randrange(20, 200) for _ in range(3)]
        p = {"op": "fix", "text": list(t), "tk": "tuple", "bg": list(b), "bk": "tuple", "large": rnd.random() < 0.5, "mode": rnd.randrange(3),
             "vr": rnd.random() < 0.5, "t": list(t), "b": list(b)}
        spare.append(p)
        if orig is None:
            continue
        try:
            a = run_probe(lib, p)
            setattr(opt, name, lambda *args, **kw: None)
            try:
                c = run_probe(lib, p)
            finally:
                setattr(opt, name, orig)
        except Exception:
            continue
        if a != c:
            out.append(p)
    return (out + spare)[:want]


def threads(shard, rec, lib, scratch):
    rnd = G.rng("c15t", shard["seed"], shard["idx"])
    dd_rounds = [descent_decided_pairs(lib, rnd, 3) for _ in range(shard["rounds"])]     # selected before line monitoring is switched on
    old_si = sys.getswitchinterval()
    sys.setswitchinterval(1e-5)
    mon = getattr(sys, "monitoring", None)
    yields = [0]
    tool = None
    if mon is not None:
        tool = 4
        try:
            mon.use_tool_id(tool, "cmv-yield")
            counter = [0]

            def on_line(code, line):
                if "cm_colors" not in code.co_filename:
                    return mon.DISABLE
                counter[0] += 1
                if counter[0] % 200 == 0:
                    yields[0] += 1
                    time.sleep(0)

            mon.register_callback(tool, mon.events.LINE, on_line)
            mon.set_events(tool, mon.events.LINE)
        except Exception as e:
            rec.count(f"skipped:yield injection ({type(e).__name__})")
            tool = None
    orders = set()
    try:
        for rd in range(shard["rounds"]):
            nthreads, nops = 8, 6
            # few distinct probes, shared between threads (aim at shared state)
            pool = [make_probe(rnd, op=rnd.choice(["fix", "fix", "bulk", "label"])) for _ in range(3)]
            # ... plus pairs the default strategy cannot repair, asked for in relaxed mode (its fallbacks run long), and pairs
            # that need many default-mode steps: their executions overlap inside the strategies
            for _k in range(3):
                hb = G.midtone_bg(rnd)
                ht = tuple(rnd.choice([0, 51, 255, 230]) for _ in range(3))
                pool.append({"op": "fix", "text": list(ht), "tk": "tuple", "bg": list(hb), "bk": "tuple", "large": False, "mode": 2, "vr": rnd.random() < 0.5,
                             "t": list(ht), "b": list(hb)})
            for _k in range(4):
                g = G.below(rnd, False, rnd.random() < 0.5, lo=0.2, hi=0.45)
                if g:
                    pool.append({"op": "fix", "text": list(g[0]), "tk": "tuple", "bg": list(g[1]), "bk": "tuple", "large": False, "mode": 1, "vr": False,
                                 "t": list(g[0]), "b": list(g[1])})
            dd = dd_rounds[rd]
            rec.count("descent_decided_probes_in_thread_pools", len(dd))
            pool += dd
            plans = [[pool[rnd.randrange(len(pool))] for _ in range(nops)] for _ in range(nthreads)]
            for k, p in enumerate(dd):        # every thread meets at least one of them
                for ti in range(nthreads):
                    if (ti + k) % 3 == 0:
                        plans[ti][(ti + k) % nops] = p
            ref = {json.dumps(p, sort_keys=True): run_probe(lib, p) for p in pool}   # sequential reference
            results = [[None] * nops for _ in range(nthreads)]
            log = []
            lock = threading.Lock()
            start = threading.Barrier(nthreads)

            def body(ti):
                start.wait()
                for oi, p in enumerate(plans[ti]):
                    with lock:
                        log.append(("c", ti, oi))
                    try:
                        results[ti][oi] = run_probe(lib, p)
                    except Exception as e:
                        results[ti][oi] = f"RAISED {type(e).__name__}: {e}"
                    with lock:
                        log.append(("r", ti, oi))

            ths = [threading.Thread(target=body, args=(i,)) for i in range(nthreads)]
            for t in ths:
                t.start()
            for t in ths:
                t.join(600)
            if any(t.is_alive() for t in ths):
                rec.inconc("thread round did not finish within the watchdog")
                return
            orders.add(tuple(log))
            # overlap: max number of operations open at once
            open_now = peak = 0
            for kind, _, _ in log:
                open_now += 1 if kind == "c" else -1
                peak = max(peak, open_now)
            rec.maxi("max_concurrently_open_operations", peak)
            for ti in range(nthreads):
                for oi, p in enumerate(plans[ti]):
                    rec.count("thread_observations"); rec.ev()
                    want = ref[json.dumps(p, sort_keys=True)]
                    if results[ti][oi] != want:
                        rec.violation(f"probe {probe_desc(p)} issued from thread {ti} concurrently with 7 others gives {results[ti][oi]} but {want} sequentially",
                                      {"probe": p, "how": "threads"})
            rec.nontrivial(("round", shard["idx"], rd))
            # re-check sequentially after the concurrent phase
            for p in pool:
                if run_probe(lib, p) != ref[json.dumps(p, sort_keys=True)]:
                    rec.violation(f"probe {probe_desc(p)} changed its result after a concurrent phase", {"probe": p, "how": "after-threads"})
    finally:
        sys.setswitchinterval(old_si)
        if tool is not None:
            try:
                mon.set_events(tool, 0)
                mon.free_tool_id(tool)
            except Exception:
                pass
    rec.count("distinct_call_return_orders", len(orders))
    rec.count("yields_injected", yields[0])
    rec.sample({"thread_rounds": shard["rounds"], "threads": 8, "ops_per_thread": 6, "distinct_call_return_orders": len(orders), "yields_injected": yields[0]}, force=True)


def replay(case):
    from cmv.lib import Lib
    lib = Lib()
    p = case["probe"]
    a = fresh(p, 0)
    b = run_probe(lib, p)
    print("probe:", probe_desc(p))
    print("fresh interpreter:", a)
    print("this process     :", b)
    ok = a == b
    if case.get("how") == "history":
        scratch = tempfile.mkdtemp(prefix="c15-replay-")
        for op in case.get("ops", []):
            run_op(lib, tuple(op), p, scratch, None)
        c = run_probe(lib, p)
        print("after history    :", c)
        ok = ok and c == a
        import shutil
        shutil.rmtree(scratch, ignore_errors=True)
    print("holds" if ok else "VIOLATED")
    return ok
