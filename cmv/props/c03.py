"""C03 - a barely perceptible lightness-only fix, when one exists, is found
and stays small."""
from cmv.gen import colors as G
from cmv.oracles import wcag, oklab, cielab, ciede2000

ID = "C03"
LEVEL = "exploration"
ORACLES = ("wcag", "oklab", "cielab", "ciede2000")
RULE = ("stratified acceptance sampling: background OKLCH lightness class (dark/mid/light) x text side (lighter/darker) x "
        "(large,very_readable), plus fixed-text draws (a quarter: text with a channel in the sRGB toe, near-black / dark red-brown, or a CSS keyword "
        "colour is kept and the background steered); "
        "text steered to a ratio in [0.86,1.0)x minimum; an independent scan of the text's lightness line "
        "(own OKLCH, L stepped by 1/4096 both ways, own clip+round, own CIEDE2000 <= 1.5, own ratio >= min+0.05) decides whether a "
        "witness exists. Obligation on witness pairs only: success in modes 0,1,2 and own dE(original, returned) <= 2.0+0.05; a third of the "
        "obligations are repeated through the bulk API and with the pair written in another accepted spelling (every opaque form; translucent "
        "forms whose exact blend over this background is the witness text). "
        "Non-trivial = witness pair; distinct = (text,bg,large,vr).")
ASSUMPTIONS = ["oracles oklab/cielab/ciede2000/wcag (self-tested); a coarse scan can only miss obligations, never invent one",
               "known finding lightness-direction-from-background-only is classified from the input alone: no witness on the side that "
               "'oracle OKLCH L(bg) < 0.5 => lighten, else darken' selects"]
MUST_OBSERVE = {"any": ["witness_pairs", "obligations_judged", "witness_on_searched_side"]}
SIZES = {"quick": dict(shards=16, witnesses=150, tries=4000), "thorough": dict(shards=64, witnesses=450, tries=12000)}
DE_SLACK = 0.05
KEY = "lightness-direction-from-background-only"


def own_de(a, b):
    return ciede2000.de(cielab.lab(a), cielab.lab(b))


def clip_round(L, C, H):
    return tuple(min(255, max(0, int(round(v)))) for v in oklab.rgb_from_lch_clip(L, C, H))


def scan(text, bg, mn):
    """-> (witness_up or None, witness_down or None): first witness met when
    stepping L outward in each direction."""
    L, C, H = oklab.lch(oklab.lab_direct(text))
    found = {}
    for name, sgn in (("up", 1), ("down", -1)):
        beyond = 0
        seen = None
        k = 1
        while True:
            Lp = L + sgn * k / 4096.0
            k += 1
            if Lp < 0 or Lp > 1:
                break
            cand = clip_round(Lp, C, H)
            if cand == seen:
                continue
            seen = cand
            d = own_de(text, cand)
            if d > 1.5:
                beyond += 1
                if beyond >= 64:
                    break
                continue
            if wcag.ratio(cand, bg) >= mn + 0.05:
                found[name] = (cand, round(d, 4))
                break
    return found.get("up"), found.get("down")


def bg_class(bg):
    L = oklab.lab_direct(bg)[0]
    return "dark" if L < 0.35 else ("mid" if L < 0.65 else "light")


def draw(rnd, want_class, want_side, mn):
    for _ in range(60):
        b = G.uniform(rnd)
        if bg_class(b) != want_class:
            continue
        end = G.WHITE if want_side == "lighter" else G.BLACK
        if wcag.ratio(end, b) < mn:
            continue
        start = G.lerp(b, G.uniform(rnd), rnd.uniform(0.1, 0.6))
        t = G.steer(start, b, mn * rnd.uniform(0.86, 0.9995), toward=end)
        if t is None or wcag.ratio(t, b) >= mn:
            continue
        if G.side(t, b) != want_side:
            continue
        return t, b
    return None


def draw_fixed_text(rnd, mn):
    """The *text* is chosen first and kept as it is - a colour with a channel in the sRGB toe (0..18: teal, dark cyan, orange, deep sky
    blue ...), a near-black / dark red-brown, or a CSS keyword colour - and the background is steered until the pair sits just under
    the minimum. The stratified draw above moves the text towards the background and so hardly ever yields such texts."""
    from cmv.oracles import csscolor
    for _ in range(40):
        k = rnd.randrange(4)
        if k == 0:
            t = [rnd.randrange(0, 19), rnd.randrange(256), rnd.randrange(256)]
            rnd.shuffle(t)
        elif k == 1:
            t = [rnd.randrange(0, 19), rnd.randrange(100, 256), rnd.randrange(100, 256)]
            rnd.shuffle(t)
        elif k == 2:
            t = [rnd.randrange(0, 70), rnd.randrange(0, 30), rnd.randrange(0, 12)]
        else:
            kw = csscolor.keywords()
            t = kw[rnd.choice(sorted(kw))]
        t = tuple(t)
        b0 = G.uniform(rnd)
        b = G.steer(b0, t, mn * rnd.uniform(0.86, 0.9995))
        if b is None or not (0.8 * mn <= wcag.ratio(t, b) < mn):
            continue
        return t, tuple(b)
    return None


def shards(tier, seed):
    z = SIZES[tier]
    return [{"kind": "witness", "seed": seed, "idx": i, "witnesses": z["witnesses"], "tries": z["tries"]} for i in range(z["shards"])]


def classify(bg, up, down):
    """Mechanism key for a failing witness pair, from the input alone."""
    Lb = oklab.lab_direct(bg)[0]
    if abs(Lb - 0.5) < 1e-4:
        searched = [up, down]          # either direction may have been chosen
        on_searched = up is not None and down is not None
    else:
        on_searched = (up if Lb < 0.5 else down) is not None
    return None if on_searched else KEY


def judge_pair(lib, rec, text, bg, large, vr, up, down):
    mn = wcag.minimum(large, vr)
    key = classify(bg, up, down)
    rec.count("witness_pairs")
    rec.count("witness_on_searched_side" if key is None else "witness_only_on_unsearched_side")
    rec.count(f"stratum:{bg_class(bg)}:{G.side(text, bg)}")
    rec.nontrivial((text, bg, large, vr))
    pair = lib.ColorPair(text, bg, large_text=large)
    for mode in (0, 1, 2):
        rec.ev()
        case = {"text": list(text), "bg": list(bg), "large": large, "vr": vr, "mode": mode,
                "witness_up": up, "witness_down": down}
        try:
            colour, success = pair.make_readable(mode=mode, very_readable=vr)
        except Exception as e:
            rec.violation(f"make_readable raised {type(e).__name__}: {e}", case)
            continue
        rec.count("obligations_judged")
        case["observed"] = repr((colour, success))
        w = up or down
        if success is not True:
            rec.violation(f"text={text} bg={bg} large={large} vr={vr} mode={mode}: witness {w[0]} (dE {w[1]}, ratio "
                          f"{wcag.ratio(w[0], bg):.3f} >= {mn}+0.05) exists but make_readable -> {(colour, success)!r}", case, key=key)
            continue
        d = own_de(text, tuple(colour))
        rec.maxi("max_returned_dE_on_witness_pairs", round(d, 4))
        if d > 2.0 + DE_SLACK:
            # on pairs of the known-finding class (no witness on the side the library searches) the lightness search finds nothing
            # and a later phase may still succeed with a colour further away: same mechanism, same key
            rec.violation(f"text={text} bg={bg} large={large} vr={vr} mode={mode}: witness exists but returned {colour} is dE {d:.3f} > 2.0 away", case, key=key)
        # the same obligation through the bulk API, the pair placed after its twin at the other text size
        if key is None:
            try:
                res = lib.make_readable_bulk([(text, bg, not large), (text, bg, large) if large else (text, bg)], mode=mode, very_readable=vr)
                bcol, bstatus = res[1]
                rec.count("bulk_route_judged")
                want = "very readable" if vr else ("readable", "very readable")
                okst = bstatus == want if vr else bstatus in want
                bd = own_de(text, tuple(bcol)) if isinstance(bcol, tuple) else None
                if not okst or bd is None or bd > 2.0 + DE_SLACK:
                    rec.violation(f"text={text} bg={bg} large={large} vr={vr} mode={mode}: witness exists, but as a bulk entry after its twin at the other "
                                  f"text size the result is {(bcol, bstatus)!r} (dE {bd})", dict(case, route="bulk"))
            except Exception as e:
                rec.violation(f"make_readable_bulk raised {type(e).__name__}: {e}", dict(case, route="bulk"))
        # the same obligation with the pair written in another accepted spelling; translucent text is written so that what is
        # seen over this background is exactly `text` (the "original" of the statement is the colour displayed)
        if key is None and (mode + text[0] + bg[1]) % 3 == 0:
            spelled_route(lib, rec, text, bg, large, vr, mode, case)
        if len(rec.samples) < 3:
            rec.sample({"text": list(text), "bg": list(bg), "large": large, "vr": vr, "mode": mode, "witness": w,
                        "returned": list(colour), "success": success, "own_dE": round(d, 3)})


def spelled_route(lib, rec, text, bg, large, vr, mode, case):
    from cmv import pairwork as PW
    from cmv.gen import spellings as SP
    rnd = G.rng("c03sp", text, bg, mode)
    tr = PW.translucent_seen_as(rnd, text, bg) if rnd.random() < 0.6 else None
    if tr is not None:
        tsp, tk = tr[0], tr[1]
    else:
        tk, tsp = rnd.choice(SP.available(text))
    bk, bsp = rnd.choice(SP.available(bg))
    cs = dict(case, route="spelled", stext=SP.jsonable(tsp), tk=tk, sbg=SP.jsonable(bsp), bk=bk)
    try:
        sp = lib.ColorPair(tsp, bsp, large_text=large)
        if not sp.is_valid or tuple(sp.bg.rgb) != tuple(bg):
            rec.count("spelled_not_judged(C07)")
            return
        seen = tuple(sp.text.rgb)
        if seen != tuple(text) and all(abs(x - y) <= 1.5 for x, y in zip(seen, text)):
            rec.count("spelled_not_judged(composite within C13 tolerance of another colour)")
            return
        colour, success = sp.make_readable(mode=mode, very_readable=vr)
    except Exception as e:
        rec.violation(f"ColorPair({tsp!r},{bsp!r}) raised {type(e).__name__}: {e}", cs)
        return
    rec.count("spelled_route_judged")
    rec.count("spelled_text_kind:" + tk)
    rb = PW.readback(colour)
    d = own_de(text, tuple(rb)) if rb is not None else None
    cs["observed"] = repr((colour, success))
    if success is not True or d is None or d > 2.0 + DE_SLACK:
        rec.violation(f"text={tsp!r} bg={bsp!r} (displayed as {text} on {bg}) large={large} vr={vr} mode={mode}: a witness exists, but "
                      f"make_readable -> {(colour, success)!r} (dE from the displayed text {d}; the library worked on {seen})", cs)


def work(shard, rec):
    from cmv.lib import Lib
    lib = Lib()
    rnd = G.rng("c03", shard["seed"], shard["idx"])
    strata = [(c, s, lg, vr) for c in ("dark", "mid", "light") for s in ("lighter", "darker")
              for lg in (False, True) for vr in (False, True)]
    got = 0
    tries = 0
    i = shard["idx"]
    while got < shard["witnesses"] and tries < shard["tries"]:
        c, s, lg, vr = strata[i % len(strata)]
        i += 1
        tries += 1
        mn = wcag.minimum(lg, vr)
        g = draw_fixed_text(rnd, mn) if tries % 4 == 0 else draw(rnd, c, s, mn)
        if g and tries % 4 == 0:
            rec.count("fixed_text_draws")
        if not g:
            rec.count("draw_failed")
            continue
        t, b = g
        rec.count("pairs_scanned")
        up, down = scan(t, b, mn)
        if not up and not down:
            rec.count("no_witness")
            continue
        got += 1
        judge_pair(lib, rec, t, b, lg, vr, up, down)


def replay(case):
    from cmv.lib import Lib
    lib = Lib()
    t, b = tuple(case["text"]), tuple(case["bg"])
    mn = wcag.minimum(case["large"], case["vr"])
    up, down = scan(t, b, mn)
    print(f"text {t} bg {b} large={case['large']} vr={case['vr']}: original ratio {wcag.ratio(t, b):.4f}, minimum {mn}")
    print(f"independent scan: witness lighter = {up}, darker = {down}; classifier key = {classify(b, up, down)}")
    if case.get("route") == "spelled":
        from cmv import pairwork as PW
        from cmv.gen import spellings as SP
        tsp, bsp = SP.from_json(case["stext"], case["tk"]), SP.from_json(case["sbg"], case["bk"])
        pr = lib.ColorPair(tsp, bsp, large_text=case["large"])
        out = pr.make_readable(mode=case["mode"], very_readable=case["vr"])
        rb = PW.readback(out[0])
        print(f"ColorPair({tsp!r},{bsp!r}): library sees {pr.text.rgb} on {pr.bg.rgb}; make_readable(mode={case['mode']}) -> {out!r}")
        ok = not (up or down) or (out[1] is True and rb is not None and own_de(t, tuple(rb)) <= 2.0 + DE_SLACK)
        print("holds" if ok else "VIOLATED")
        return ok
    out = lib.ColorPair(t, b, large_text=case["large"]).make_readable(mode=case["mode"], very_readable=case["vr"])
    print(f"make_readable(mode={case['mode']}) -> {out!r}")
    ok = not (up or down) or (out[1] is True and own_de(t, tuple(out[0])) <= 2.0 + DE_SLACK)
    print("holds" if ok else "VIOLATED")
    return ok
