"""Running the real cm-colors command: as a subprocess (the process boundary
the user sees) or in-process (so that monitors can attach)."""
import contextlib
import io
import os
import subprocess
import sys

from cmv import env

_BOOT = ("import sys; sys.dont_write_bytecode=True; sys.path.insert(0, {src!r}); "
         "from cm_colors.cli.main import main; main()")


def run_subprocess(args, cwd, timeout=120, extra_env=None):
    e = dict(os.environ)
    e["PYTHONDONTWRITEBYTECODE"] = "1"
    e["PYTHONIOENCODING"] = "utf-8"
    e["NO_COLOR"] = "1"
    e.pop("CMV_SCRATCH", None)
    if extra_env:
        e.update(extra_env)
    p = subprocess.run([sys.executable, "-c", _BOOT.format(src=env.SRC)] + list(args), cwd=cwd, env=e,
                       stdout=subprocess.PIPE, stderr=subprocess.PIPE, timeout=timeout)
    return p.returncode, p.stdout.decode("utf-8", "replace"), p.stderr.decode("utf-8", "replace")


def run_inprocess(args, cwd):
    """-> (rc, stdout, stderr). rc 0 on normal return, 1 on click/usage errors,
    ('EXC', repr) if the command raised."""
    import importlib
    m = importlib.import_module("cm_colors.cli.main")
    old = os.getcwd()
    out, err = io.StringIO(), io.StringIO()
    os.chdir(cwd)
    rc = 0
    try:
        with contextlib.redirect_stdout(out), contextlib.redirect_stderr(err):
            try:
                m.main.main(args=list(args), standalone_mode=False)
            except SystemExit as e:
                rc = e.code or 0
            except Exception as e:  # includes click exceptions
                rc = ("EXC", f"{type(e).__name__}: {e}")
    finally:
        os.chdir(old)
    return rc, out.getvalue(), err.getvalue()
