"""WCAG 2.x relative luminance / contrast ratio, written from the definition.

The 256 linearised channel values are computed with `decimal` at 50 digits;
luminance is an integer-weighted sum (2126/7152/722 per 10^4) so that no float
rounding pattern is shared with the library.
"""
from decimal import Decimal, getcontext
from fractions import Fraction

getcontext().prec = 50


def _lin_dec(c8):
    c = Decimal(c8) / Decimal(255)
    if c <= Decimal("0.04045"):
        return c / Decimal("12.92")
    # ((c+0.055)/1.055) ** 2.4  via exp/ln in Decimal
    base = (c + Decimal("0.055")) / Decimal("1.055")
    return (base.ln() * Decimal("2.4")).exp()


LIN_DEC = [_lin_dec(i) for i in range(256)]
LIN = [float(x) for x in LIN_DEC]
# WCAG 2.0 text says 0.03928, sRGB says 0.04045: same branch for all 8-bit values
BRANCH_AGREE = all(
    ((Decimal(i) / 255) <= Decimal("0.03928")) == ((Decimal(i) / 255) <= Decimal("0.04045"))
    for i in range(256)
)
_WR = [0.2126 * x for x in LIN]
_WG = [0.7152 * x for x in LIN]
_WB = [0.0722 * x for x in LIN]

THRESH = {(False, False): 4.5, (True, False): 3.0, (False, True): 7.0, (True, True): 4.5}
# (large, very_readable) -> minimum ratio


def luminance(rgb):
    r, g, b = rgb
    return _WR[r] + _WG[g] + _WB[b]


def luminance_exact(rgb):
    r, g, b = rgb
    return (2126 * LIN_DEC[r] + 7152 * LIN_DEC[g] + 722 * LIN_DEC[b]) / Decimal(10000)


def ratio(a, b):
    la = luminance(a)
    lb = luminance(b)
    if la < lb:
        la, lb = lb, la
    return (la + 0.05) / (lb + 0.05)


def ratio_exact(a, b):
    la = luminance_exact(a)
    lb = luminance_exact(b)
    if la < lb:
        la, lb = lb, la
    return (la + Decimal("0.05")) / (lb + Decimal("0.05"))


def minimum(large, very_readable):
    return THRESH[(bool(large), bool(very_readable))]


def level(r, large=False):
    """'AAA' / 'AA' / 'FAIL' for a ratio r, thresholds inclusive."""
    hi, lo = (4.5, 3.0) if large else (7.0, 4.5)
    if r >= hi:
        return "AAA"
    if r >= lo:
        return "AA"
    return "FAIL"


LABEL = {"AAA": "very readable", "AA": "readable", "FAIL": "not readable"}

RATIO_BAND = 1e-9


def verdicts(r, thr):
    """Set of acceptable truth values for 'r >= thr' given RATIO_BAND."""
    if abs(r - thr) <= RATIO_BAND * thr:
        return {True, False}
    return {r >= thr}


def selftest():
    assert BRANCH_AGREE
    assert abs(luminance((255, 255, 255)) - 1.0) < 1e-15
    assert luminance((0, 0, 0)) == 0.0
    assert abs(ratio((0, 0, 0), (255, 255, 255)) - 21.0) < 1e-12
    assert ratio((0x76,) * 3, (255,) * 3) >= 4.5 > ratio((0x77,) * 3, (255,) * 3)
    assert abs(float(luminance_exact((12, 200, 99))) - luminance((12, 200, 99))) < 1e-15
    assert level(4.5) == "AA" and level(4.499999) == "FAIL" and level(3.0, True) == "AA"
    assert level(7.0) == "AAA" and level(4.5, True) == "AAA"
