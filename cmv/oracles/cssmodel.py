"""Reference reading of a stylesheet, built on tinycss2's tokenizer/parser
(a dependency of the tool, trusted here; not the code under test).

rules(css)      ordered list of Rule for every qualified rule at top level or
                nested in @media/@supports (to any depth)
variables(css)  custom properties of top-level ':root' / 'html' rules
resolve(v, vars)   var() resolution with fallbacks, chains, cycle detection
canonical(css)  structural form for 'everything else preserved' comparisons
"""
import tinycss2
from tinycss2 import ast

CONTAINERS = ("media", "supports")


class Rule:
    __slots__ = ("selector", "decls", "depth", "path", "top_level", "node", "index")

    def __init__(self, selector, decls, depth, path, node, index):
        self.selector = selector
        self.decls = decls
        self.depth = depth
        self.path = path
        self.top_level = depth == 0
        self.node = node
        self.index = index

    def last(self, name):
        d = None
        for x in self.decls:
            if x.type == "declaration" and x.lower_name == name:
                d = x
        return d

    def value(self, name):
        """Declared value as text; comments inside the value are not part of it."""
        d = self.last(name)
        return None if d is None else tinycss2.serialize([t for t in d.value if t.type != "comment"]).strip()

    @property
    def has_error_nodes(self):
        return any(x.type == "error" for x in self.decls)


def selector_text(prelude):
    return tinycss2.serialize(prelude).strip()


def _walk(nodes, depth, path, out):
    for i, n in enumerate(nodes):
        if n.type == "qualified-rule":
            decls = tinycss2.parse_declaration_list(n.content, skip_whitespace=True, skip_comments=True)
            out.append(Rule(selector_text(n.prelude), decls, depth, path + (i,), n, len(out)))
        elif n.type == "at-rule" and n.lower_at_keyword in CONTAINERS and n.content is not None:
            inner = tinycss2.parse_rule_list(n.content, skip_whitespace=False, skip_comments=False)
            _walk(inner, depth + 1, path + (i,), out)


def rules(css):
    top = tinycss2.parse_stylesheet(css, skip_whitespace=False, skip_comments=False)
    out = []
    _walk(top, 0, (), out)
    return out


def variables(css):
    """name -> value text; top-level ':root' / 'html' rules only, last wins."""
    v = {}
    for r in rules(css):
        if r.top_level and r.selector in (":root", "html"):
            for d in r.decls:
                if d.type == "declaration" and d.name.startswith("--"):
                    v[d.name] = tinycss2.serialize(d.value).strip()
    return v


def _find_var(tokens):
    for i, t in enumerate(tokens):
        if t.type == "function" and t.lower_name == "var":
            return i, t
    return None


def resolve(value, variables_, _seen=None):
    """CSS var() substitution on a value string. Returns the substituted text
    or None if it is invalid at computed-value time (undefined variable
    without fallback, or a cycle)."""
    if value is None:
        return None
    seen = _seen or frozenset()
    toks = tinycss2.parse_component_value_list(value)
    for _ in range(50):
        hit = _find_var(toks)
        if hit is None:
            return tinycss2.serialize(toks).strip()
        i, fn = hit
        args = [a for a in fn.arguments]
        # name = first non-whitespace token; fallback = everything after the first comma
        name = None
        fb = None
        for k, a in enumerate(args):
            if a.type == "whitespace":
                continue
            if name is None:
                if a.type == "ident" and a.value.startswith("--"):
                    name = a.value
                    continue
                return None
            if a.type == "literal" and a.value == ",":
                fb = tinycss2.serialize(args[k + 1:]).strip()
                break
        if name is None:
            return None
        sub = None
        if name in variables_ and name not in seen:
            sub = resolve(variables_[name], variables_, seen | {name})
        if sub is None and fb is not None:
            sub = resolve(fb, variables_, seen | {name})
        if sub is None:
            return None
        toks = toks[:i] + tinycss2.parse_component_value_list(sub) + toks[i + 1:]
    return None


def var_names(value):
    """Custom property names referenced (first level) by var() in a value."""
    out = []
    for t in tinycss2.parse_component_value_list(value or ""):
        if t.type == "function" and t.lower_name == "var":
            for a in t.arguments:
                if a.type == "ident" and a.value.startswith("--"):
                    out.append(a.value)
                    break
    return out


# ------------------------------------------------------------- canonical
def canon_tokens(tokens):
    out = []
    for t in tokens or []:
        ty = t.type
        if ty == "whitespace":
            if out and out[-1] != ("ws",):
                out.append(("ws",))
            continue
        if ty == "comment":
            out.append(("comment", t.value))
        elif ty in ("ident", "at-keyword", "string", "url", "literal"):
            out.append((ty, t.value))
        elif ty == "hash":
            out.append((ty, t.value))
        elif ty == "number":
            out.append((ty, t.representation))
        elif ty == "percentage":
            out.append((ty, t.representation))
        elif ty == "dimension":
            out.append((ty, t.representation, t.unit))
        elif ty == "function":
            out.append((ty, t.name, tuple(canon_tokens(t.arguments))))
        elif ty in ("() block", "[] block", "{} block"):
            out.append((ty, tuple(canon_tokens(t.content))))
        elif ty == "error":
            out.append(("error", t.kind))
        elif ty == "unicode-range":
            out.append((ty, t.start, t.end))
        else:
            out.append((ty, tinycss2.serialize([t])))
    while out and out[0] == ("ws",):
        out.pop(0)
    while out and out[-1] == ("ws",):
        out.pop()
    return out


def canon_decls(content):
    """Declaration-level canonical form of a rule body. If the body holds
    anything the parser flags as an error the token-level form is returned too,
    because such a body cannot legitimately be re-serialised."""
    items = tinycss2.parse_declaration_list(content, skip_whitespace=True, skip_comments=False)
    out = []
    err = False
    for d in items:
        if d.type == "declaration":
            out.append(("decl", d.name, tuple(canon_tokens(d.value)), bool(d.important)))
        elif d.type == "comment":
            out.append(("comment", d.value))
        elif d.type == "at-rule":
            out.append(("at", d.lower_at_keyword, tuple(canon_tokens(d.prelude)), tuple(canon_tokens(d.content)) if d.content is not None else None))
        elif d.type == "error":
            err = True
            out.append(("error", d.kind))
        else:
            out.append((d.type, tinycss2.serialize([d])))
    if err:
        out.append(("tokens", tuple(t for t in canon_tokens(content) if not (t[0] == "literal" and t[1] == ";") and t != ("ws",))))
    return out


def canon_rule_list(nodes):
    out = []
    for n in nodes:
        if n.type == "whitespace":
            continue
        if n.type == "comment":
            out.append(("comment", n.value))
        elif n.type == "qualified-rule":
            out.append(("rule", tuple(canon_tokens(n.prelude)), tuple(canon_decls(n.content))))
        elif n.type == "at-rule":
            if n.content is None:
                body = None
            elif n.lower_at_keyword in CONTAINERS:
                body = tuple(canon_rule_list(tinycss2.parse_rule_list(n.content, skip_whitespace=False, skip_comments=False)))
            else:
                body = ("tokens", tuple(canon_tokens(n.content)))
            out.append(("at", n.lower_at_keyword, tuple(canon_tokens(n.prelude)), body))
        elif n.type == "error":
            out.append(("error", n.kind))
        else:
            out.append((n.type, tinycss2.serialize([n])))
    return out


def canonical(css):
    return canon_rule_list(tinycss2.parse_stylesheet(css, skip_whitespace=False, skip_comments=False))


def count_errors(css):
    n = 0

    def walk(nodes):
        nonlocal n
        for x in nodes:
            if x.type == "error":
                n += 1
            elif x.type == "qualified-rule":
                for d in tinycss2.parse_declaration_list(x.content, skip_whitespace=True, skip_comments=True):
                    if d.type == "error":
                        n += 1
            elif x.type == "at-rule" and x.lower_at_keyword in CONTAINERS and x.content is not None:
                walk(tinycss2.parse_rule_list(x.content, skip_whitespace=True, skip_comments=True))
    walk(tinycss2.parse_stylesheet(css, skip_whitespace=True, skip_comments=True))
    return n


def selftest():
    css = """:root { --a: #777; --b: var(--a); --cyc: var(--cyc); }
    /* c */ .x { color: red; COLOR: var(--b) ; background-color: #fff }
    @media print { @supports (x:y) { .y { color: var(--nope, blue) } } }
    @font-face { font-family: "a;{}"; src: url(x.woff) }
    """
    rs = rules(css)
    assert [r.selector for r in rs] == [":root", ".x", ".y"], [r.selector for r in rs]
    assert rs[1].value("color") == "var(--b)" and rs[2].depth == 2
    v = variables(css)
    assert resolve(rs[1].value("color"), v) == "#777"
    assert resolve(rs[2].value("color"), v) == "blue"
    assert resolve("var(--cyc)", v) is None and resolve("var(--nope)", v) is None
    assert resolve("1px solid var(--a)", v) == "1px solid #777"
    a = canonical(".a{color:red;;b:'x'}/*k*/@media x{.b{c:d}}")
    b = canonical(" .a { color: red; b: \"x\" }\n/*k*/\n@media x {\n .b { c: d; }\n}\n")
    assert a == b, (a, b)
    assert canonical(".a{color:red}") != canonical(".a{color:blue}")
    assert canonical(".a{color:red!important}") != canonical(".a{color:red}")
    assert canonical("/*a*/.a{}") != canonical(".a{}")
    assert canonical("@import 'x';.a{}") != canonical(".a{}")
