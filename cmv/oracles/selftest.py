"""Oracle self-tests; a failure makes a check INCONCLUSIVE, never a violation."""
import importlib

ALL = ("wcag", "csscolor", "cielab", "oklab", "ciede2000", "htmldom", "cssmodel")


def run(names=None):
    names = list(names) if names else list(ALL)
    for n in names:
        try:
            importlib.import_module(f"cmv.oracles.{n}").selftest()
        except Exception as e:  # noqa
            return f"{n}: {type(e).__name__}: {e}"
    return None


if __name__ == "__main__":
    import sys
    err = run(ALL)
    print("oracle self-tests:", err or "ok")
    sys.exit(1 if err else 0)
