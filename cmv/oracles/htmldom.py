"""DOM skeleton of an HTML document, built on the standard library's tokenizer.

skeleton(html) -> (structure, texts, styles)
  structure: list of ('start', tag, sorted attribute names, class value) / ('end', tag)
  texts:     list of decoded, whitespace-normalised non-empty text nodes (outside <style>/<script>)
  styles:    list of decoded style attribute values, in document order
"""
from html.parser import HTMLParser


class _P(HTMLParser):
    def __init__(self):
        super().__init__(convert_charrefs=True)
        self.structure = []
        self.texts = []
        self.styles = []
        self.raw = 0

    def handle_starttag(self, tag, attrs):
        names = tuple(sorted(k for k, _ in attrs))
        cls = dict(attrs).get("class")
        self.structure.append(("start", tag, names, cls))
        for k, v in attrs:
            if k == "style":
                self.styles.append(v)
        if tag in ("style", "script"):
            self.raw += 1

    def handle_startendtag(self, tag, attrs):
        self.handle_starttag(tag, attrs)
        self.structure.append(("end", tag))

    def handle_endtag(self, tag):
        self.structure.append(("end", tag))
        if tag in ("style", "script") and self.raw:
            self.raw -= 1

    def handle_data(self, data):
        if self.raw:
            return
        t = " ".join(data.split())
        if t:
            self.texts.append(t)

    def handle_comment(self, data):
        self.structure.append(("comment",))

    def handle_decl(self, decl):
        self.structure.append(("decl", decl.lower()))

    def handle_pi(self, data):
        self.structure.append(("pi",))

    def unknown_decl(self, data):
        self.structure.append(("unknown-decl",))


def skeleton(doc):
    p = _P()
    p.feed(doc)
    p.close()
    return p.structure, p.texts, p.styles


def norm(s):
    return " ".join(s.split())


def selftest():
    s, t, st = skeleton('<div class="a" style="color: red;">x &lt;b&gt; y</div><!-- c --><p>q</p>')
    assert s == [("start", "div", ("class", "style"), "a"), ("end", "div"), ("comment",), ("start", "p", (), None), ("end", "p")], s
    assert t == ["x <b> y", "q"] and st == ["color: red;"]
    s2, t2, st2 = skeleton('<div class="a" style="color: red;" onmouseover="x">x <b> y</div>')
    assert s2 != s
