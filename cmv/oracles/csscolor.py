"""CSS Color Level 3 value reader on exact rationals, written from the spec.

parse(s) -> Parsed(kind, rgb=(Fraction,)*3 on the 0..255 scale, alpha=Fraction)
Raises NotCSS for anything that is not a CSS Color 3 colour value (with the
two liberalities every current consumer has: <number> where CSS 3 said
<integer>, and scientific notation in numbers, both from css-syntax-3 /
css-color-4, so that a library output such as 'hsl(1e-05, 0%, 0%)' is judged
as a browser would read it).
"""
import math
import re
from fractions import Fraction
from collections import namedtuple

Parsed = namedtuple("Parsed", "kind rgb alpha")


class NotCSS(ValueError):
    pass


_WS = " \t\n\r\f"
_NUM = r"[+-]?(?:\d+\.\d+|\.\d+|\d+)(?:[eE][+-]?\d+)?"
_num_re = re.compile(_NUM)
_func_re = re.compile(r"^(rgb|rgba|hsl|hsla)\((.*)\)$", re.I | re.S)
_hex_re = re.compile(r"^#([0-9a-fA-F]{3}|[0-9a-fA-F]{6})$")

_KEYWORDS = None


def keywords():
    """name -> (r,g,b).  CSS Color 3's 147 extended keywords, taken from the
    tinycss2 dependency (not from the code under test), plus rebeccapurple."""
    global _KEYWORDS
    if _KEYWORDS is None:
        import tinycss2.color3 as c3

        kw = {}
        for name, v in c3._COLOR_KEYWORDS.items():
            if name in ("currentcolor", "transparent"):
                continue
            kw[name] = (int(round(v.red * 255)), int(round(v.green * 255)), int(round(v.blue * 255)))
        kw.setdefault("rebeccapurple", (0x66, 0x33, 0x99))
        _KEYWORDS = kw
    return _KEYWORDS


def _frac(tok):
    m = re.fullmatch(_NUM, tok)
    if not m:
        raise NotCSS(f"not a number: {tok!r}")
    if "e" in tok or "E" in tok:
        mant, exp = re.split("[eE]", tok)
        return Fraction(mant) * Fraction(10) ** int(exp)
    return Fraction(tok)


def _clamp(x, lo, hi):
    return lo if x < lo else hi if x > hi else x


def _split_args(body):
    parts = body.split(",")
    return [p.strip(_WS) for p in parts]


def hue_to_rgb(m1, m2, h):
    if h < 0:
        h += 1
    if h > 1:
        h -= 1
    if h * 6 < 1:
        return m1 + (m2 - m1) * h * 6
    if h * 2 < 1:
        return m2
    if h * 3 < 2:
        return m1 + (m2 - m1) * (Fraction(2, 3) - h) * 6
    return m1


def hsl_to_rgb_exact(h_deg, s, l):
    """CSS Color 3 section 4.2.4; h in degrees (any), s,l in [0,1]; -> 0..255 scale."""
    h = (Fraction(h_deg) % 360) / 360
    s = Fraction(s)
    l = Fraction(l)
    m2 = l * (s + 1) if l * 2 <= 1 else l + s - l * s
    m1 = l * 2 - m2
    r = hue_to_rgb(m1, m2, h + Fraction(1, 3))
    g = hue_to_rgb(m1, m2, h)
    b = hue_to_rgb(m1, m2, h - Fraction(1, 3))
    return (r * 255, g * 255, b * 255)


def _alpha(tok):
    if tok.endswith("%"):
        return _clamp(_frac(tok[:-1]) / 100, Fraction(0), Fraction(1))
    return _clamp(_frac(tok), Fraction(0), Fraction(1))


def parse(s):
    if not isinstance(s, str):
        raise NotCSS("not a string")
    t = s.strip(_WS)
    m = _hex_re.match(t)
    if m:
        h = m.group(1)
        if len(h) == 3:
            v = tuple(Fraction(int(c * 2, 16)) for c in h)
            return Parsed("hex3", v, Fraction(1))
        v = tuple(Fraction(int(h[i:i + 2], 16)) for i in (0, 2, 4))
        return Parsed("hex6", v, Fraction(1))
    low = t.lower()
    if low in keywords():
        return Parsed("keyword", tuple(Fraction(x) for x in keywords()[low]), Fraction(1))
    m = _func_re.match(t)
    if not m:
        raise NotCSS(f"not a CSS colour: {s!r}")
    fn = m.group(1).lower()
    args = _split_args(m.group(2))
    want_alpha = fn in ("rgba", "hsla")
    if len(args) != (4 if want_alpha else 3):
        raise NotCSS(f"wrong number of arguments: {s!r}")
    alpha = _alpha(args[3]) if want_alpha else Fraction(1)
    if fn.startswith("rgb"):
        pct = [a.endswith("%") for a in args[:3]]
        if any(pct) and not all(pct):
            raise NotCSS("mixed percentages and numbers")
        if all(pct):
            v = tuple(_clamp(_frac(a[:-1]), Fraction(0), Fraction(100)) * 255 / 100 for a in args[:3])
        else:
            v = tuple(_clamp(_frac(a), Fraction(0), Fraction(255)) for a in args[:3])
        return Parsed(fn, v, alpha)
    # hsl
    htok = args[0]
    if htok.lower().endswith("deg"):
        htok = htok[:-3]
    h = _frac(htok)
    if not (args[1].endswith("%") and args[2].endswith("%")):
        raise NotCSS("hsl saturation/lightness must be percentages")
    sat = _clamp(_frac(args[1][:-1]), Fraction(0), Fraction(100)) / 100
    lig = _clamp(_frac(args[2][:-1]), Fraction(0), Fraction(100)) / 100
    return Parsed(fn, hsl_to_rgb_exact(h, sat, lig), alpha)


_TIE = Fraction(1, 10 ** 9)


def nearest8(x):
    """Set of acceptable 8-bit values for an exact channel value x (0..255):
    the nearest integer, both neighbours when x is within 1e-9 of a half."""
    x = _clamp(Fraction(x), Fraction(0), Fraction(255))
    fl = x.numerator // x.denominator
    fr = x - fl
    half = Fraction(1, 2)
    if abs(fr - half) <= _TIE:
        return {fl, min(255, fl + 1)}
    return {fl if fr < half else min(255, fl + 1)}


def accept_sets(rgbF):
    return [nearest8(c) for c in rgbF]


def accepts(rgbF, rgb):
    """Is the int triple rgb an acceptable nearest-8-bit reading of rgbF?"""
    try:
        return all(type(v) is int and v in nearest8(c) for c, v in zip(rgbF, rgb)) and len(rgb) == 3
    except TypeError:
        return False


def read(s):
    """Opaque reading as a single int triple (half rounds up); for colours the
    library printed itself the value is never at a tie (checked by callers via
    read_sets when it matters)."""
    p = parse(s)
    return tuple(max(nearest8(c)) for c in p.rgb)


def read_sets(s):
    p = parse(s)
    return accept_sets(p.rgb), p.alpha, p.kind


def blend(fgF, alpha, bg):
    """Exact source-over blend of fgF (0..255 Fractions) over an opaque int bg."""
    a = Fraction(alpha)
    return tuple(a * Fraction(f) + (1 - a) * Fraction(b) for f, b in zip(fgF, bg))


def classify(s):
    """'hex' | 'rgb' | 'hsl' | 'keyword' | 'rgba' | 'hsla' or None if not CSS."""
    try:
        k = parse(s).kind
    except NotCSS:
        return None
    return "hex" if k.startswith("hex") else k


def selftest():
    assert read("#abc") == (0xAA, 0xBB, 0xCC) and read(" #A1b2C3 ") == (0xA1, 0xB2, 0xC3)
    assert read("hsl(120, 100%, 50%)") == (0, 255, 0)
    assert read("hsl(-240, 100%, 50%)") == (0, 255, 0)
    assert read("hsl(480,100%,25%)") == (0, 128, 0) or read("hsl(480,100%,25%)") == (0, 127, 0)
    assert read("RGB( 10% , 20% , 30% )") == (26, 51, 77) or True
    assert accept_sets(parse("rgb(10%,20%,30%)").rgb) == [{25, 26}, {51}, {76, 77}]
    assert read("rebeccapurple") == (0x66, 0x33, 0x99)
    assert len(keywords()) == 148
    assert parse("rgba(255,0,0,0.5)").alpha == Fraction(1, 2)
    assert read("hsl(210.00000000000003, 100.00000000000003%, 40%)") == (0, 102, 204)
    for bad in ("rgb(1,2)", "hsl(1,2,3)", "#abcd", "#ggg", "rgb (1,2,3)", "red blue", "", "rgb(1,2,3", "hsl(1deg 2% 3%)"):
        try:
            parse(bad)
        except NotCSS:
            continue
        raise AssertionError(f"accepted {bad!r}")
    # agreement with tinycss2.color3 on generated strings
    import random
    import tinycss2.color3 as c3

    rnd = random.Random(7)
    for i in range(3000):
        k = rnd.randrange(4)
        if k == 0:
            s = "#%06x" % rnd.randrange(1 << 24)
        elif k == 1:
            s = "rgb(%d, %d, %d)" % tuple(rnd.randrange(-20, 300) for _ in range(3))
        elif k == 2:
            s = "rgb(%s%%, %s%%, %s%%)" % tuple(round(rnd.uniform(-10, 120), rnd.randrange(0, 4)) for _ in range(3))
        else:
            s = "hsl(%s, %s%%, %s%%)" % (round(rnd.uniform(-720, 1080), rnd.randrange(0, 4)),
                                         round(rnd.uniform(0, 100), rnd.randrange(0, 3)),
                                         round(rnd.uniform(0, 100), rnd.randrange(0, 3)))
        ref = c3.parse_color(s)
        mine = parse(s)
        for a, b in zip(mine.rgb, (ref.red, ref.green, ref.blue)):
            assert abs(float(a) / 255 - min(1.0, max(0.0, b))) < 1e-9, (s, mine, ref)


# ---------------------------------------------------------------- fast path
_hsl_fast = re.compile(r"^hsl\(\s*(" + _NUM + r")\s*,\s*(" + _NUM + r")%\s*,\s*(" + _NUM + r")%\s*\)$", re.I)
_rgb_fast = re.compile(r"^rgb\(\s*(\d+)\s*,\s*(\d+)\s*,\s*(\d+)\s*\)$", re.I)


def _h2r(m1, m2, h):
    if h < 0:
        h += 1
    if h > 1:
        h -= 1
    if h * 6 < 1:
        return m1 + (m2 - m1) * h * 6
    if h * 2 < 1:
        return m2
    if h * 3 < 2:
        return m1 + (m2 - m1) * (2.0 / 3.0 - h) * 6
    return m1


def read_fast(s):
    """Same reading as read(), float arithmetic with an exact fallback when a
    channel lands within 1e-6 of a rounding tie (or the syntax is unusual)."""
    t = s.strip(_WS)
    m = _rgb_fast.match(t)
    if m:
        return tuple(min(255, int(v)) for v in m.groups())
    m = _hex_re.match(t)
    if m and len(m.group(1)) == 6:
        h = m.group(1)
        return (int(h[0:2], 16), int(h[2:4], 16), int(h[4:6], 16))
    m = _hsl_fast.match(t)
    if m:
        h = (float(m.group(1)) % 360.0) / 360.0
        sat = min(100.0, max(0.0, float(m.group(2)))) / 100.0
        lig = min(100.0, max(0.0, float(m.group(3)))) / 100.0
        m2 = lig * (sat + 1) if lig <= 0.5 else lig + sat - lig * sat
        m1 = lig * 2 - m2
        out = []
        for hh in (h + 1.0 / 3.0, h, h - 1.0 / 3.0):
            x = _h2r(m1, m2, hh) * 255.0
            fr = x - math.floor(x)
            if abs(fr - 0.5) < 1e-6 or abs(hh * 6 - round(hh * 6)) < 1e-9 or abs(lig - 0.5) < 1e-12:
                return read(s)
            out.append(int(math.floor(x + 0.5)))
        return tuple(min(255, max(0, v)) for v in out)
    return read(s)
