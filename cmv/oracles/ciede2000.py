"""CIEDE2000 from Sharma, Wu, Dalal (2005), eqs (2)-(22), kL=kC=kH=1.

de(lab1, lab2)          plain value
de_set(lab1, lab2, tol) the formula is discontinuous where |h'1-h'2| crosses
                        180 deg; when the pair is within the hue uncertainty a
                        Lab disagreement of `tol` can cause, both branches are
                        evaluated and a list of admissible values is returned.
"""
import math

SHARMA = [
    (50.0000, 2.6772, -79.7751, 50.0000, 0.0000, -82.7485, 2.0425),
    (50.0000, 3.1571, -77.2803, 50.0000, 0.0000, -82.7485, 2.8615),
    (50.0000, 2.8361, -74.0200, 50.0000, 0.0000, -82.7485, 3.4412),
    (50.0000, -1.3802, -84.2814, 50.0000, 0.0000, -82.7485, 1.0000),
    (50.0000, -1.1848, -84.8006, 50.0000, 0.0000, -82.7485, 1.0000),
    (50.0000, -0.9009, -85.5211, 50.0000, 0.0000, -82.7485, 1.0000),
    (50.0000, 0.0000, 0.0000, 50.0000, -1.0000, 2.0000, 2.3669),
    (50.0000, -1.0000, 2.0000, 50.0000, 0.0000, 0.0000, 2.3669),
    (50.0000, 2.4900, -0.0010, 50.0000, -2.4900, 0.0009, 7.1792),
    (50.0000, 2.4900, -0.0010, 50.0000, -2.4900, 0.0010, 7.1792),
    (50.0000, 2.4900, -0.0010, 50.0000, -2.4900, 0.0011, 7.2195),
    (50.0000, 2.4900, -0.0010, 50.0000, -2.4900, 0.0012, 7.2195),
    (50.0000, -0.0010, 2.4900, 50.0000, 0.0009, -2.4900, 4.8045),
    (50.0000, -0.0010, 2.4900, 50.0000, 0.0010, -2.4900, 4.8045),
    (50.0000, -0.0010, 2.4900, 50.0000, 0.0011, -2.4900, 4.7461),
    (50.0000, 2.5000, 0.0000, 50.0000, 0.0000, -2.5000, 4.3065),
    (50.0000, 2.5000, 0.0000, 73.0000, 25.0000, -18.0000, 27.1492),
    (50.0000, 2.5000, 0.0000, 61.0000, -5.0000, 29.0000, 22.8977),
    (50.0000, 2.5000, 0.0000, 56.0000, -27.0000, -3.0000, 31.9030),
    (50.0000, 2.5000, 0.0000, 58.0000, 24.0000, 15.0000, 19.4535),
    (50.0000, 2.5000, 0.0000, 50.0000, 3.1736, 0.5854, 1.0000),
    (50.0000, 2.5000, 0.0000, 50.0000, 3.2972, 0.0000, 1.0000),
    (50.0000, 2.5000, 0.0000, 50.0000, 1.8634, 0.5757, 1.0000),
    (50.0000, 2.5000, 0.0000, 50.0000, 3.2592, 0.3350, 1.0000),
    (60.2574, -34.0099, 36.2677, 60.4626, -34.1751, 39.4387, 1.2644),
    (63.0109, -31.0961, -5.8663, 62.8187, -29.7946, -4.0864, 1.2630),
    (61.2901, 3.7196, -5.3901, 61.4292, 2.2480, -4.9620, 1.8731),
    (35.0831, -44.1164, 3.7933, 35.0232, -40.0716, 1.5901, 1.8645),
    (22.7233, 20.0904, -46.6940, 23.0331, 14.9730, -42.5619, 2.0373),
    (36.4612, 47.8580, 18.3852, 36.2715, 50.5065, 21.2231, 1.4146),
    (90.8027, -2.0831, 1.4410, 91.1528, -1.6435, 0.0447, 1.4441),
    (90.9257, -0.5406, -0.9208, 88.6381, -0.8985, -0.7239, 1.5381),
    (6.7747, -0.2908, -2.4247, 5.8714, -0.0985, -2.2286, 0.6377),
    (2.0776, 0.0795, -1.1350, 0.9033, -0.0636, -0.5514, 0.9082),
]


def _hp(b, ap):
    if b == 0 and ap == 0:
        return 0.0
    h = math.degrees(math.atan2(b, ap))
    return h + 360.0 if h < 0 else h


def _core(lab1, lab2, branch=None):
    """branch: None = as the paper says; 'wrap'/'nowrap' force the treatment
    of |h'1-h'2| > 180."""
    L1, a1, b1 = lab1
    L2, a2, b2 = lab2
    C1 = math.hypot(a1, b1)
    C2 = math.hypot(a2, b2)
    Cb = (C1 + C2) / 2.0
    Cb7 = Cb ** 7
    G = 0.5 * (1 - math.sqrt(Cb7 / (Cb7 + 25.0 ** 7)))
    a1p = (1 + G) * a1
    a2p = (1 + G) * a2
    C1p = math.hypot(a1p, b1)
    C2p = math.hypot(a2p, b2)
    h1p = _hp(b1, a1p)
    h2p = _hp(b2, a2p)
    dLp = L2 - L1
    dCp = C2p - C1p
    diff = h2p - h1p
    if branch is None:
        wrap = abs(diff) > 180.0
    else:
        wrap = branch == "wrap"
    if C1p * C2p == 0:
        dhp = 0.0
    elif not wrap:
        dhp = diff
    elif diff > 0:
        dhp = diff - 360.0
    else:
        dhp = diff + 360.0
    dHp = 2.0 * math.sqrt(C1p * C2p) * math.sin(math.radians(dhp / 2.0))
    Lbp = (L1 + L2) / 2.0
    Cbp = (C1p + C2p) / 2.0
    if C1p * C2p == 0:
        hbp = h1p + h2p
    elif not wrap:
        hbp = (h1p + h2p) / 2.0
    elif h1p + h2p < 360.0:
        hbp = (h1p + h2p + 360.0) / 2.0
    else:
        hbp = (h1p + h2p - 360.0) / 2.0
    T = (1 - 0.17 * math.cos(math.radians(hbp - 30))
         + 0.24 * math.cos(math.radians(2 * hbp))
         + 0.32 * math.cos(math.radians(3 * hbp + 6))
         - 0.20 * math.cos(math.radians(4 * hbp - 63)))
    dtheta = 30.0 * math.exp(-(((hbp - 275.0) / 25.0) ** 2))
    Cbp7 = Cbp ** 7
    RC = 2.0 * math.sqrt(Cbp7 / (Cbp7 + 25.0 ** 7))
    SL = 1 + 0.015 * (Lbp - 50) ** 2 / math.sqrt(20 + (Lbp - 50) ** 2)
    SC = 1 + 0.045 * Cbp
    SH = 1 + 0.015 * Cbp * T
    RT = -math.sin(math.radians(2 * dtheta)) * RC
    tL = dLp / SL
    tC = dCp / SC
    tH = dHp / SH
    v = tL * tL + tC * tC + tH * tH + RT * tC * tH
    info = (abs(diff), min(C1p, C2p))
    return math.sqrt(max(v, 0.0)), info


def de(lab1, lab2):
    return _core(lab1, lab2)[0]


def de_set(lab1, lab2, tol=0.03):
    v, (adiff, cmin) = _core(lab1, lab2)
    if cmin <= tol:
        delta = 180.0
    else:
        delta = math.degrees(2.0 * math.asin(min(1.0, tol / cmin)))
    if abs(adiff - 180.0) <= delta:
        return [v, _core(lab1, lab2, "wrap")[0], _core(lab1, lab2, "nowrap")[0]]
    return [v]


def selftest():
    worst = 0.0
    for row in SHARMA:
        got = de(row[0:3], row[3:6])
        worst = max(worst, abs(got - row[6]))
        assert abs(got - row[6]) < 1e-4, (row, got)
        back = de(row[3:6], row[0:3])
        assert abs(got - back) < 1e-9
    return worst
