"""sRGB -> XYZ (D65) -> CIE L*a*b*, derived from first principles.

The RGB->XYZ matrix is *derived* here from the Rec.709/sRGB primaries and the
D65 white point (0.3127, 0.3290); the white used for Lab is the same derived
white; epsilon/kappa are the exact CIE rationals.
"""
from cmv.oracles.wcag import LIN

_XY = {"r": (0.64, 0.33), "g": (0.30, 0.60), "b": (0.15, 0.06)}
_W = (0.3127, 0.3290)


def _det3(m):
    return (m[0][0] * (m[1][1] * m[2][2] - m[1][2] * m[2][1])
            - m[0][1] * (m[1][0] * m[2][2] - m[1][2] * m[2][0])
            + m[0][2] * (m[1][0] * m[2][1] - m[1][1] * m[2][0]))


def _inv3(m):
    d = _det3(m)
    c = [[0.0] * 3 for _ in range(3)]
    for i in range(3):
        for j in range(3):
            a = [[m[r][cc] for cc in range(3) if cc != j] for r in range(3) if r != i]
            c[j][i] = ((-1) ** (i + j)) * (a[0][0] * a[1][1] - a[0][1] * a[1][0]) / d
    return c


def _derive():
    cols = []
    for k in "rgb":
        x, y = _XY[k]
        cols.append((x / y, 1.0, (1 - x - y) / y))
    P = [[cols[j][i] for j in range(3)] for i in range(3)]
    xw, yw = _W
    Wv = (xw / yw, 1.0, (1 - xw - yw) / yw)
    Pi = _inv3(P)
    S = [sum(Pi[i][j] * Wv[j] for j in range(3)) for i in range(3)]
    M = [[P[i][j] * S[j] for j in range(3)] for i in range(3)]
    return M, Wv


M_RGB2XYZ, WHITE = _derive()
EPS = 216 / 24389
KAPPA = 24389 / 27


def xyz(rgb):
    """XYZ with Y(white)=1."""
    lr, lg, lb = LIN[rgb[0]], LIN[rgb[1]], LIN[rgb[2]]
    M = M_RGB2XYZ
    return (M[0][0] * lr + M[0][1] * lg + M[0][2] * lb,
            M[1][0] * lr + M[1][1] * lg + M[1][2] * lb,
            M[2][0] * lr + M[2][1] * lg + M[2][2] * lb)


def _f(t):
    if t > EPS:
        return t ** (1.0 / 3.0)
    return (KAPPA * t + 16) / 116


def lab_from_xyz(x, y, z):
    fx, fy, fz = _f(x / WHITE[0]), _f(y / WHITE[1]), _f(z / WHITE[2])
    return (116 * fy - 16, 500 * (fx - fy), 200 * (fy - fz))


def lab(rgb):
    return lab_from_xyz(*xyz(rgb))


def selftest():
    M = M_RGB2XYZ
    ref = [[0.4124, 0.3576, 0.1805], [0.2126, 0.7152, 0.0722], [0.0193, 0.1192, 0.9505]]
    for i in range(3):
        for j in range(3):
            assert abs(M[i][j] - ref[i][j]) < 6e-5, (i, j, M[i][j])
    L, a, b = lab((255, 255, 255))
    assert abs(L - 100) < 1e-9 and abs(a) < 1e-9 and abs(b) < 1e-9
    L, a, b = lab((0, 0, 0))
    assert abs(L) < 1e-12 and abs(a) < 1e-12 and abs(b) < 1e-12
    L, a, b = lab((255, 0, 0))  # well-known: 53.24, 80.09, 67.20
    assert abs(L - 53.24) < 0.02 and abs(a - 80.09) < 0.03 and abs(b - 67.20) < 0.03, (L, a, b)
    L, a, b = lab((0, 0, 255))  # 32.30, 79.19, -107.86
    assert abs(L - 32.30) < 0.02 and abs(a - 79.19) < 0.03 and abs(b + 107.86) < 0.03, (L, a, b)
