"""OKLab / OKLCH from Björn Ottosson's published definition.

Two published routes to LMS exist: M1 applied to XYZ(D65), and the direct
linear-sRGB matrix.  They differ by up to ~1.2e-4 in OKLab (rounding of the
published sRGB matrix); forward checks accept either.
"""
import math

from cmv.oracles.wcag import LIN
from cmv.oracles import cielab

M1 = [[0.8189330101, 0.3618667424, -0.1288597137],
      [0.0329845436, 0.9293118715, 0.0361456387],
      [0.0482003018, 0.2643662691, 0.6338517070]]
M2 = [[0.2104542553, 0.7936177850, -0.0040720468],
      [1.9779984951, -2.4285922050, 0.4505937099],
      [0.0259040371, 0.7827717662, -0.8086757660]]
SRGB2LMS = [[0.4122214708, 0.5363325363, 0.0514459929],
            [0.2119034982, 0.6806995451, 0.1073969566],
            [0.0883024619, 0.2817188376, 0.6299787005]]
# inverses are computed, not copied
M2_INV = cielab._inv3(M2)
SRGB2LMS_INV = cielab._inv3(SRGB2LMS)


def _mv(M, v):
    return tuple(M[i][0] * v[0] + M[i][1] * v[1] + M[i][2] * v[2] for i in range(3))


def _cbrt(x):
    return math.copysign(abs(x) ** (1.0 / 3.0), x)


def lab_from_xyz(xyz):
    lms = _mv(M1, xyz)
    return _mv(M2, tuple(_cbrt(c) for c in lms))


def lab_direct(rgb):
    lin = (LIN[rgb[0]], LIN[rgb[1]], LIN[rgb[2]])
    lms = _mv(SRGB2LMS, lin)
    return _mv(M2, tuple(_cbrt(c) for c in lms))


def lab_via_xyz(rgb):
    return lab_from_xyz(cielab.xyz(rgb))


def lch(lab):
    L, a, b = lab
    return (L, math.hypot(a, b), math.degrees(math.atan2(b, a)) % 360.0)


def linear_from_lch(L, C, H):
    a = C * math.cos(math.radians(H))
    b = C * math.sin(math.radians(H))
    lms_ = _mv(M2_INV, (L, a, b))
    lms = tuple(c * c * c for c in lms_)
    return _mv(SRGB2LMS_INV, lms)


def _gamma(c):
    if c <= 0.0031308:
        return 12.92 * c
    return 1.055 * c ** (1 / 2.4) - 0.055


def rgb_from_lch_clip(L, C, H):
    """Published inverse followed by per-channel clipping; returns the float
    0..255 values (un-rounded) so callers can accept +-1."""
    lin = linear_from_lch(L, C, H)
    return tuple(255.0 * _gamma(min(1.0, max(0.0, c))) for c in lin)


def selftest():
    rows = [((0.950, 1.000, 1.089), (1.000, 0.000, 0.000)),
            ((1.000, 0.000, 0.000), (0.450, 1.236, -0.019)),
            ((0.000, 1.000, 0.000), (0.922, -0.671, 0.263)),
            ((0.000, 0.000, 1.000), (0.153, -1.415, -0.449))]
    for xyz, want in rows:
        got = lab_from_xyz(xyz)
        for g, w in zip(got, want):
            assert abs(g - w) < 6e-4, (xyz, got, want)
    I = [[sum(M2[i][k] * M2_INV[k][j] for k in range(3)) for j in range(3)] for i in range(3)]
    for i in range(3):
        for j in range(3):
            assert abs(I[i][j] - (1.0 if i == j else 0.0)) < 1e-9
    L, a, b = lab_direct((255, 255, 255))
    assert abs(L - 1) < 1e-6 and abs(a) < 1e-6 and abs(b) < 1e-6, (L, a, b)
    for rgb in ((255, 0, 0), (12, 200, 99), (3, 3, 250)):
        d = lab_direct(rgb)
        v = lab_via_xyz(rgb)
        assert max(abs(x - y) for x, y in zip(d, v)) < 3e-4
        back = rgb_from_lch_clip(*lch(d))
        assert all(abs(x - y) < 0.01 for x, y in zip(back, rgb)), (rgb, back)
