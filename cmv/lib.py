"""Handles on the library under test (resolved after env.use_tree())."""
import importlib
import sys


class Lib:
    def __init__(self):
        import cm_colors
        self.pkg = cm_colors
        self.ColorPair = cm_colors.ColorPair
        self.Color = cm_colors.Color
        self.make_readable_bulk = cm_colors.make_readable_bulk

    def mod(self, name):
        """cm_colors.core.<name> or None if the module does not exist."""
        for full in (f"cm_colors.core.{name}", f"cm_colors.cli.{name}", f"cm_colors.{name}"):
            try:
                return importlib.import_module(full)
            except ImportError:
                continue
        return None

    def fn(self, modname, attr):
        m = self.mod(modname)
        return getattr(m, attr, None) if m else None


def patch_everywhere(orig, new):
    """Replace every module-level reference to `orig` inside cm_colors.* with
    `new` (covers `from x import f` bindings made at import time). Returns the
    number of bindings replaced."""
    n = 0
    for name, m in list(sys.modules.items()):
        if m is None or not (name == "cm_colors" or name.startswith("cm_colors.")):
            continue
        for k, v in list(vars(m).items()):
            if v is orig:
                setattr(m, k, new)
                n += 1
    return n
