"""Function-reach evidence: which functions of the library under test actually
executed during a worker's workload (sys.monitoring PY_START, disabled per code
object after the first hit, so the cost is negligible)."""
import sys

TOOL = 3
_state = {"on": False, "seen": set()}


def start():
    mon = getattr(sys, "monitoring", None)
    if mon is None or _state["on"]:
        return False
    try:
        mon.use_tool_id(TOOL, "cmv-reach")
    except ValueError:
        return False

    def on_start(code, offset):
        fn = code.co_filename
        i = fn.find("cm_colors")
        if i >= 0:
            _state["seen"].add(fn[i:].replace(".py", "").replace("/", ".") + ":" + code.co_qualname)
        return mon.DISABLE

    mon.register_callback(TOOL, mon.events.PY_START, on_start)
    mon.set_events(TOOL, mon.events.PY_START)
    _state["on"] = True
    return True


def stop():
    mon = getattr(sys, "monitoring", None)
    if mon is not None and _state["on"]:
        try:
            mon.set_events(TOOL, 0)
            mon.free_tool_id(TOOL)
        except Exception:
            pass
        _state["on"] = False
    return sorted(_state["seen"])
