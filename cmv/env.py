"""Locates the tree under test and puts it first on sys.path.

Python needs no build step: "rebuild from the working tree" is "import from
it".  use_tree() asserts that the imported cm_colors really lies under
$CMV_REPO/src; a stale installed copy must never be judged (-> inconclusive).
"""
import os
import sys

HOME = os.environ.get("CMV_HOME") or os.path.dirname(os.path.dirname(os.path.abspath(__file__)))
REPO = os.path.abspath(os.environ.get("CMV_REPO", "/repo"))
SRC = os.path.join(REPO, "src")
DEPS = os.path.join(HOME, ".deps")


class Inconclusive(Exception):
    pass


def tier():
    return os.environ.get("VERIF_TIER", "quick")


def seed():
    try:
        return int(os.environ.get("VERIF_SEED", "0"))
    except ValueError:
        return 0


def use_tree():
    """Import cm_colors from the tree under test; return the package."""
    sys.dont_write_bytecode = True
    if SRC in sys.path:
        sys.path.remove(SRC)
    sys.path.insert(0, SRC)
    if os.path.isdir(DEPS) and DEPS not in sys.path:
        sys.path.append(DEPS)  # last: never shadow the venv's own packages
    for name in list(sys.modules):
        if name == "cm_colors" or name.startswith("cm_colors."):
            f = getattr(sys.modules[name], "__file__", "") or ""
            if not os.path.abspath(f).startswith(SRC + os.sep):
                del sys.modules[name]
    try:
        import cm_colors
    except Exception as e:  # the tree does not import: nothing can be judged
        raise Inconclusive(f"tree under test does not import: {type(e).__name__}: {e}")
    f = os.path.abspath(cm_colors.__file__)
    if not f.startswith(SRC + os.sep):
        raise Inconclusive(f"cm_colors imported from {f}, not from {SRC}")
    return cm_colors
