"""Driver: ./check <ID> quick|thorough [--replay file]"""
import importlib
import json
import os
import shutil
import subprocess
import sys
import tempfile
import time

from cmv import env, findings, evidence
from cmv.rec import Rec

NPROC = int(os.environ.get("CMV_JOBS", "16"))


def run_shards(modname, shards, timeout_s):
    """Run every shard in its own subprocess (<= NPROC at a time)."""
    scratch = tempfile.mkdtemp(prefix="cmv-")
    merged = Rec()
    errors = []
    try:
        pending = list(enumerate(shards))
        running = {}
        wenv = dict(os.environ)
        wenv["CMV_SCRATCH"] = scratch
        while pending or running:
            while pending and len(running) < NPROC:
                i, sh = pending.pop(0)
                sp = os.path.join(scratch, f"shard{i}.json")
                op = os.path.join(scratch, f"out{i}.json")
                with open(sp, "w") as f:
                    json.dump(sh, f)
                e = dict(wenv)
                e.update({k: str(v) for k, v in (sh.get("env") or {}).items()})
                p = subprocess.Popen(
                    [sys.executable, "-m", "cmv.worker", modname, sp, op],
                    cwd=env.HOME, env=e, stdout=subprocess.DEVNULL,
                    stderr=open(os.path.join(scratch, f"err{i}.txt"), "w"),
                )
                running[i] = (p, op, time.time(), sh)
            time.sleep(0.02)
            for i in list(running):
                p, op, t0, sh = running[i]
                rc = p.poll()
                if rc is None:
                    if time.time() - t0 > timeout_s:
                        p.kill()
                        p.wait()
                        errors.append(f"shard {i} ({sh.get('kind')}) watchdog after {timeout_s}s")
                        del running[i]
                    continue
                del running[i]
                if not os.path.exists(op):
                    err = ""
                    try:
                        err = open(os.path.join(scratch, f"err{i}.txt")).read()[-1500:]
                    except OSError:
                        pass
                    errors.append(f"shard {i} ({sh.get('kind')}) died rc={rc}: {err}")
                    continue
                with open(op) as f:
                    out = json.load(f)
                if out.get("error"):
                    errors.append(f"shard {i} ({sh.get('kind')}): {out['error']}")
                merged.merge_dump(out["rec"])
    finally:
        shutil.rmtree(scratch, ignore_errors=True)
    return merged, errors


def main(argv=None):
    argv = list(sys.argv[1:] if argv is None else argv)
    if not argv:
        print("usage: check <ID> quick|thorough [--replay file]")
        return 2
    pid = argv[0].upper()
    tier = "quick"
    replay = None
    rest = argv[1:]
    while rest:
        a = rest.pop(0)
        if a in ("quick", "thorough"):
            tier = a
        elif a == "--replay":
            replay = rest.pop(0)
    os.environ["VERIF_TIER"] = tier
    seed = env.seed()
    modname = pid.lower()
    mod = importlib.import_module(f"cmv.props.{modname}")

    if replay:
        env.use_tree()
        with open(replay) as f:
            case = json.load(f)
        ok = mod.replay(case.get("case", case))
        return 0 if ok else 1

    t0 = time.time()
    # oracle self-tests: a failing oracle makes the run inconclusive
    from cmv.oracles import selftest

    st_err = selftest.run(getattr(mod, "ORACLES", ()))
    if st_err:
        print(f"INCONCLUSIVE property={pid} reason=oracle self-test failed: {st_err}")
        return 2
    try:
        env.use_tree()
    except env.Inconclusive as e:
        print(f"INCONCLUSIVE property={pid} reason={e}")
        return 2

    shards = mod.shards(tier, seed)
    timeout_s = getattr(mod, "SHARD_TIMEOUT", {"quick": 600, "thorough": 3600})[tier]
    merged, errors = run_shards(modname, shards, timeout_s)
    wall = time.time() - t0

    known = findings.load(pid)
    viol_unknown = [v for v in merged.viol if not (v["key"] and v["key"] in known)]
    n_unknown = sum(n for k, n in merged.nviol.items() if not (k and k in known))
    known_hits = {k: n for k, n in merged.nviol.items() if k and k in known}

    reasons = list(errors) + list(merged.inconclusive)
    # deciding monitors must have observed something
    for name in getattr(mod, "MUST_OBSERVE", {}).get(tier, getattr(mod, "MUST_OBSERVE", {}).get("any", [])):
        if merged.ctr.get(name, 0) <= 0:
            reasons.append(f"deciding monitor '{name}' observed 0 events")
    if merged.evals <= 0:
        reasons.append("no evaluations")

    replay_paths = []
    if viol_unknown:
        rdir = os.path.join(env.HOME, "replays", pid)
        os.makedirs(rdir, exist_ok=True)
        for n, v in enumerate(viol_unknown[:20]):
            rp = os.path.join(rdir, f"{tier}-{seed}-{n}.json")
            with open(rp, "w") as f:
                json.dump({"property": pid, "tier": tier, "seed": seed, **v}, f, indent=1, default=repr)
            replay_paths.append(rp)

    evidence.write(pid, mod, tier, seed, merged, wall, known_hits, n_unknown, reasons)

    for k, n in sorted(known_hits.items()):
        ex = next((v for v in merged.viol if v["key"] == k), None)
        what = known[k]
        exs = f" e.g. {ex['what']}" if ex else ""
        print(f"KNOWN-FINDING: property={pid} key={k} hits={n} {what}{exs}"[:900])
    if n_unknown:
        for v, rp in zip(viol_unknown, replay_paths):
            print(f"VIOLATION property={pid} replay={rp}  # {v['what']}"[:900])
        if not replay_paths:
            print(f"VIOLATION property={pid} replay=none")
        print(f"{pid} {tier}: {n_unknown} violation(s) in {merged.evals} evaluations, {wall:.1f}s")
        return 1
    if reasons:
        for r in reasons[:10]:
            print(f"INCONCLUSIVE property={pid} reason={r}"[:1500])
        return 2
    print(f"{pid} {tier} seed={seed}: held on {merged.evals} evaluations "
          f"({merged.distinct_nontrivial} distinct non-trivial), {wall:.1f}s")
    return 0


if __name__ == "__main__":
    sys.exit(main())
