"""Per-shard observation record, mergeable across worker processes."""
import hashlib
import json
from collections import Counter

MAX_VIOL_PER_SHARD = 40
MAX_SAMPLES_PER_SHARD = 3
MAX_NT_HASHES = 400_000


def h64(obj):
    s = json.dumps(obj, sort_keys=True, default=repr, ensure_ascii=True)
    return int.from_bytes(hashlib.blake2b(s.encode(), digest_size=8).digest(), "big")


class Rec:
    def __init__(self):
        self.evals = 0
        self.nt = set()          # hashes of distinct non-trivial case keys
        self.nt_disjoint = 0     # count for enumerated, shard-disjoint spaces
        self.viol = []           # [{key, what, case}]
        self.nviol = Counter()   # mechanism key (or "") -> count
        self.samples = []
        self.ctr = Counter()
        self.inconclusive = []
        self.maxima = {}
        self.reached = set()     # library functions that executed (sys.monitoring PY_START)

    # ---- recording -------------------------------------------------
    def ev(self, n=1):
        self.evals += n

    def nontrivial(self, key):
        if len(self.nt) < MAX_NT_HASHES:
            self.nt.add(h64(key))
        else:
            self.ctr["nt_hashes_dropped"] += 1

    def count(self, name, n=1):
        self.ctr[name] += n

    def maxi(self, name, v):
        if v is None:
            return
        if name not in self.maxima or v > self.maxima[name]:
            self.maxima[name] = v

    def sample(self, s, force=False):
        if force or len(self.samples) < MAX_SAMPLES_PER_SHARD:
            self.samples.append(s)

    def violation(self, what, case, key=None):
        """key: mechanism key assigned by a classifier (pure function of the
        input and the oracle) or None."""
        self.nviol[key or ""] += 1
        kept = sum(1 for v in self.viol if (v["key"] or "") == (key or ""))
        if kept < MAX_VIOL_PER_SHARD:
            self.viol.append({"key": key, "what": what, "case": case})

    def inconc(self, reason):
        if reason not in self.inconclusive:
            self.inconclusive.append(reason)

    # ---- (de)serialisation / merge ---------------------------------
    def dump(self):
        return {
            "evals": self.evals,
            "nt": sorted(self.nt),
            "nt_disjoint": self.nt_disjoint,
            "viol": self.viol,
            "nviol": dict(self.nviol),
            "samples": self.samples,
            "ctr": dict(self.ctr),
            "inconclusive": self.inconclusive,
            "maxima": self.maxima,
            "reached": sorted(self.reached),
        }

    def merge_dump(self, d):
        self.evals += d["evals"]
        self.nt.update(d["nt"])
        self.nt_disjoint += d["nt_disjoint"]
        self.viol.extend(d["viol"])
        self.nviol.update(d["nviol"])
        self.samples.extend(d["samples"])
        self.ctr.update(d["ctr"])
        for r in d["inconclusive"]:
            self.inconc(r)
        for k, v in d["maxima"].items():
            self.maxi(k, v)
        self.reached.update(d.get("reached", ()))

    @property
    def distinct_nontrivial(self):
        return len(self.nt) + self.nt_disjoint
