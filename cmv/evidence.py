"""evidence/<id>.json writer (schema: /root/.vp/EVIDENCE.schema.json)."""
import json
import os

from cmv import env


def write(pid, mod, tier, seed, merged, wall, known_hits, n_unknown, reasons):
    cov = {
        "evaluations": int(merged.evals),
        "distinct_nontrivial": int(merged.distinct_nontrivial),
        "rule": getattr(mod, "RULE", ""),
        "samples": merged.samples[:12] or ["<none recorded>"],
        "counters": dict(sorted(merged.ctr.items())),
        "maxima": merged.maxima,
        "library_functions_reached": sorted(merged.reached),
        "known_finding_hits": known_hits,
        "violation_counts_by_key": {k or "<unclassified>": n for k, n in merged.nviol.items()},
        "inconclusive_reasons": reasons[:10],
        "tree": env.REPO,
    }
    if getattr(mod, "ENUMERATED", {}).get(tier):
        cov["enumerated_sublattices"] = mod.ENUMERATED[tier]    # complete within themselves, but chosen by the harness
    if getattr(mod, "EXHAUSTIVE", {}).get(tier):
        cov["exhaustive"] = True
        cov["exhaustive_subspaces"] = mod.EXHAUSTIVE[tier]
    ev = {
        "property_id": pid,
        "tier": tier,
        "seed": int(seed),
        "level": getattr(mod, "LEVEL", "exploration"),
        "coverage": cov,
        "assumptions": list(getattr(mod, "ASSUMPTIONS", [])),
        "wall_s": round(wall, 2),
        "violations": int(n_unknown),
    }
    d = os.path.join(env.HOME, "evidence")
    if env.REPO != "/repo":
        # self-validation runs against a scratch tree never overwrite the committed evidence
        d = os.path.join(os.environ.get("TMPDIR", "/tmp"), "cmv-scratch-evidence")
    os.makedirs(d, exist_ok=True)
    path = os.path.join(d, f"{pid}.json")
    tmp = path + ".tmp"
    with open(tmp, "w") as f:
        json.dump(ev, f, indent=1, default=repr)
    os.replace(tmp, path)
    try:
        import jsonschema  # optional self-validation
        sch = "/root/.vp/EVIDENCE.schema.json"
        if os.path.exists(sch):
            jsonschema.validate(ev, json.load(open(sch)))
    except ImportError:
        pass
    return path
