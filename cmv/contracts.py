"""Runtime contracts on the real functions, applied from the harness by
attribute replacement (no source edit).

ensure(lib_module, name, cond) wraps module.name so that cond(**args, result=)
is evaluated after *every* call - including the thousands of internal calls the
optimiser makes.  Conditions record into a Rec and return True (they never
abort the execution they observe).  Backend: icontract if importable, else an
equivalent 20-line wrapper; the evidence records which one ran.
"""
import functools
import inspect

from cmv.lib import patch_everywhere

try:
    import icontract
    BACKEND = "icontract"
except Exception:  # pragma: no cover
    icontract = None
    BACKEND = "builtin"


class PostBroken(AssertionError):
    pass


def ensure(module, name, cond):
    """cond's parameters must be a subset of the function's parameter names
    plus 'result'.  Returns (orig, n_bindings_patched) or (None, 0) when the
    attribute is absent (sub-check skipped)."""
    orig = getattr(module, name, None)
    if orig is None or not callable(orig):
        return None, 0
    if icontract is not None:
        wrapped = icontract.ensure(cond, error=PostBroken)(orig)
    else:
        sig = inspect.signature(orig)
        want = [p for p in inspect.signature(cond).parameters]

        @functools.wraps(orig)
        def wrapped(*a, **k):
            result = orig(*a, **k)
            ba = sig.bind(*a, **k)
            ba.apply_defaults()
            kw = {p: (result if p == "result" else ba.arguments[p]) for p in want}
            if not cond(**kw):
                raise PostBroken(name)
            return result
    n = patch_everywhere(orig, wrapped)
    return orig, n


def restore(orig_wrapped_pairs):
    for orig, wrapped in orig_wrapped_pairs:
        patch_everywhere(wrapped, orig)
