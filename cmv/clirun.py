"""One observed run of the real cm-colors command on a scratch directory, and
parsers for what it shows the user: stdout summary, report cards, outputs."""
import hashlib
import os
import re
from html.parser import HTMLParser

from cmv import cli


class _Cards(HTMLParser):
    def __init__(self):
        super().__init__(convert_charrefs=True)
        self.cards = []
        self.stack = []
        self.cur = None

    def handle_starttag(self, tag, attrs):
        a = dict(attrs)
        cls = a.get("class") or ""
        self.stack.append((tag, cls))
        if tag == "div" and cls == "card":
            self.cur = {"selector": None, "file": None, "styles": [], "codes": [], "badges": []}
            self.cards.append(self.cur)
        if self.cur is not None and "color-box" in cls.split():
            self.cur["styles"].append(a.get("style") or "")

    def handle_endtag(self, tag):
        while self.stack:
            t, _ = self.stack.pop()
            if t == tag:
                break

    def handle_data(self, data):
        if self.cur is None or not self.stack:
            return
        cls = self.stack[-1][1].split()
        txt = data
        if "selector" in cls:
            self.cur["selector"] = (self.cur["selector"] or "") + txt
        elif "file-info" in cls:
            self.cur["file"] = (self.cur["file"] or "") + txt
        elif "color-code" in cls:
            self.cur["codes"].append(txt)
        elif "badge" in cls:
            self.cur["badges"].append(txt.strip())


_STYLE = re.compile(r"^background-color: (.*); color: (.*);$", re.S)


def parse_report(path):
    """-> list of {selector, file, bg, before, after} or None if no report."""
    if not os.path.exists(path):
        return None
    p = _Cards()
    p.feed(open(path, encoding="utf-8").read())
    p.close()
    out = []
    for c in p.cards:
        if c["selector"] is None:
            continue
        d = {"selector": c["selector"].strip(), "file": (c["file"] or "").strip(), "ok": False}
        if len(c["styles"]) == 2 and len(c["codes"]) == 2:
            m1, m2 = _STYLE.match(c["styles"][0]), _STYLE.match(c["styles"][1])
            if m1 and m2:
                d.update({"bg": m1.group(1), "before": m1.group(2), "after": m2.group(2), "bg2": m2.group(1),
                          "code_before": c["codes"][0].strip(), "code_after": c["codes"][1].strip(), "ok": True})
        out.append(d)
    return out


_COUNT = {
    "accessible": re.compile(r"^✓ (\d+) color pairs already readable\s*$", re.M),
    "tuned": re.compile(r"^✓ (\d+) color pairs adjusted for better readability\s*$", re.M),
    "failed": re.compile(r"^✗ (\d+) color pairs need your attention\s*$", re.M),
}


def parse_stdout(out):
    """-> {accessible, tuned, failed, listed: [(file, selector)], files_announced}"""
    d = {}
    for k, rx in _COUNT.items():
        m = rx.search(out)
        d[k] = int(m.group(1)) if m else 0
    listed = []
    m = re.search(r"^Could not tune (\d+) color pairs:\s*$", out, re.M)
    d["listed_count"] = int(m.group(1)) if m else 0
    if m:
        for line in out[m.end():].split("\n"):
            mm = re.match(r"^  (\S.*?) -> (.*)$", line)
            if mm and not line.startswith("    "):
                listed.append((mm.group(1), mm.group(2).strip()))
    d["listed"] = listed
    m = re.search(r"^Processing (\d+) files\.\.\.", out, re.M)
    d["files_announced"] = int(m.group(1)) if m else None
    d["no_files"] = "No CSS files found." in out
    return d


def snapshot(root):
    """relative path -> (kind, sha256 | link target)"""
    out = {}
    for dp, dns, fns in os.walk(root):
        for n in dns + fns:
            p = os.path.join(dp, n)
            rel = os.path.relpath(p, root)
            if os.path.islink(p):
                out[rel] = ("link", os.readlink(p))
            elif os.path.isdir(p):
                out[rel] = ("dir", "")
            else:
                with open(p, "rb") as f:
                    out[rel] = ("file", hashlib.sha256(f.read()).hexdigest())
    return out


def run(args, cwd, inprocess=False, timeout=180):
    if inprocess:
        return cli.run_inprocess(args, cwd)
    return cli.run_subprocess(args, cwd, timeout=timeout)
