"""KNOWN_FINDINGS.txt: committed, never written at run time.

  known: property=<id> key=<mechanism-key> <what fails>
  fixed: property=<id> <commit> <what failed>

A violation is suppressed (printed as KNOWN-FINDING) only if its classifier -
a pure function of the input and the oracle - gave it a mechanism key listed
'known:' for that property.  'fixed:' lines suppress nothing.
"""
import os
import re

from cmv import env

_LINE = re.compile(r"^known:\s+property=(\S+)\s+key=(\S+)\s+(.*)$")


def load(pid):
    path = os.path.join(env.HOME, "KNOWN_FINDINGS.txt")
    out = {}
    try:
        with open(path) as f:
            for line in f:
                m = _LINE.match(line.strip())
                if m and m.group(1) == pid:
                    out[m.group(2)] = m.group(3)
    except OSError:
        pass
    return out
