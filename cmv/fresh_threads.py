"""Fresh interpreter whose *first* use of the library comes from many threads at
once:  python -m cmv.fresh_threads '<json [probes]>' <nthreads>  -> JSON list of
results per thread.  A yield is injected on cm_colors lines (sys.monitoring) so
that lazily initialised shared state is met half-built."""
import json
import sys
import threading
import time


def main():
    probes = json.loads(sys.argv[1])
    nthreads = int(sys.argv[2])
    from cmv import env
    env.use_tree()
    sys.setswitchinterval(1e-5)
    mon = getattr(sys, "monitoring", None)
    if mon is not None:
        try:
            mon.use_tool_id(4, "cmv-yield")
            n = [0]

            def on_line(code, line):
                if "cm_colors" not in code.co_filename:
                    return mon.DISABLE
                n[0] += 1
                if n[0] % 40 == 0:
                    time.sleep(0)

            mon.register_callback(4, mon.events.LINE, on_line)
            mon.set_events(4, mon.events.LINE)
        except Exception:
            pass
    from cmv.lib import Lib
    from cmv.fresh import run_probe
    lib = Lib()           # imports the package; nothing has been *called* yet
    out = [[None] * len(probes) for _ in range(nthreads)]
    bar = threading.Barrier(nthreads)

    def body(ti):
        bar.wait()
        for k in range(len(probes)):
            p = probes[(k + ti) % len(probes)]
            try:
                out[ti][(k + ti) % len(probes)] = run_probe(lib, p)
            except Exception as e:
                out[ti][(k + ti) % len(probes)] = f"RAISED {type(e).__name__}: {e}"

    ths = [threading.Thread(target=body, args=(i,)) for i in range(nthreads)]
    for t in ths:
        t.start()
    for t in ths:
        t.join(300)
    sys.stdout.write(json.dumps(out))


if __name__ == "__main__":
    main()
