"""Shared pair workload: builds spelled (text, bg) cases, runs the real
ColorPair.make_readable under every requested configuration and hands the
observations to per-property judges."""
import itertools

from cmv.gen import colors as G, spellings as SP
from cmv.oracles import wcag, csscolor

CONFIGS = [(m, lg, vr) for m in (0, 1, 2) for lg in (False, True) for vr in (False, True)]
BLEND_TOL = 1.5 + 1e-6
ALPHAS = ["0", "1", "0.5", "0.6", "0.25", "0.8", ".5", ".8", ".75", "0.001", "0.999", "0.9999999999999999"]
POOL_FG = [(255, 255, 255), (0, 0, 0), (255, 0, 0), (0, 102, 204), (119, 119, 119), (255, 204, 0)]


def build_cases(seed, salt, n, per_pair_configs=3, translucent_every=7, classes=None):
    """Deterministic list of JSON-able cases."""
    rnd = G.rng("pairs", seed, salt)
    triples = classes(rnd, n) if classes else G.pair_classes(rnd, n)
    cases = []
    for i, (cls, t, b) in enumerate(triples):
        t = tuple(t)
        b = tuple(b)
        if i % 45 == 44:
            cases.extend(alias_cases(rnd, t, per_pair_configs))
        tks = SP.available(t)
        bks = SP.available(b)
        tk, tsp = tks[rnd.randrange(len(tks))]
        bk, bsp = bks[rnd.randrange(len(bks))]
        case = {"cls": cls, "t": list(t), "b": list(b), "tk": tk, "text": SP.jsonable(tsp),
                "bk": bk, "bg": SP.jsonable(bsp)}
        if translucent_every and i % translucent_every == translucent_every - 1:
            # translucent text: foreground fg with alpha over this background
            allk = SP.TRANSLUCENT_KINDS + SP.TRANSLUCENT_KINDS_X
            kind = allk[rnd.randrange(len(allk))]
            a = ALPHAS[rnd.randrange(len(ALPHAS))] if rnd.random() < 0.5 else ("%.*f" % (rnd.randrange(1, 5), rnd.random()))
            fg = t
            if rnd.random() < 0.5:
                # a small pool of foregrounds and alphas: the *same* translucent string then meets many different
                # backgrounds within one process (its composite must follow the background every time)
                fg = POOL_FG[rnd.randrange(len(POOL_FG))]
                a = ALPHAS[2 + rnd.randrange(4)]
            sp = SP.spell_translucent(fg, a, kind)
            if sp is not None:
                case.update({"tk": kind, "text": SP.jsonable(sp), "alpha": a, "fg": list(fg)})
        if per_pair_configs >= len(CONFIGS):
            cfgs = rnd.sample(CONFIGS, len(CONFIGS))   # every configuration, in an order that differs from pair to pair
        else:
            cfgs = rnd.sample(CONFIGS, per_pair_configs)
        case["cfgs"] = [list(c) for c in cfgs]
        cases.append(case)
    return cases


def alias_cases(rnd, t, per_pair_configs):
    """Tuples that compare (and hash) equal but denote different colours: ints are 0-255 channels, floats in [0,1] are
    fractions of full scale, bools are ints. Each spelling is used as text and as background, back to back in one process."""
    bits = [rnd.choice([0, 1]) for _ in range(3)]
    if sum(bits) in (0, 3) and rnd.random() < 0.5:
        bits[rnd.randrange(3)] ^= 1
    out = []
    forms = [("ints", [int(x) for x in bits], tuple(int(x) for x in bits)),
             ("floats", [float(x) for x in bits], tuple(255 * x for x in bits)),
             ("bools", [bool(x) for x in bits], tuple(int(x) for x in bits))]
    rnd.shuffle(forms)
    t = tuple(t)
    for name, spelled, denotes in forms:
        cfgs = rnd.sample(CONFIGS, min(len(CONFIGS), max(2, per_pair_configs)))
        # as background
        out.append({"cls": "alias-" + name, "t": list(t), "b": list(denotes), "tk": "tuple", "text": list(t), "bk": "tuple", "bg": spelled,
                    "cfgs": [list(c) for c in cfgs]})
        # as text, on white or black
        b2 = rnd.choice([(255, 255, 255), (0, 0, 0), (119, 119, 119)])
        out.append({"cls": "alias-" + name, "t": list(denotes), "b": list(b2), "tk": "tuple", "text": spelled, "bk": "tuple", "bg": list(b2),
                    "cfgs": [list(c) for c in cfgs[:2]]})
    return out


def same_string_cases(seed, salt, n_bgs=6, cfgs=None):
    """One shard's worth of cases in which each of a few translucent text strings meets several different backgrounds
    in sequence, in one process (a composite remembered per string, not per (string, background), shows here)."""
    rnd = G.rng("samestring", seed, salt)
    cases = []
    for fg in POOL_FG:
        for a in ("0.5", "0.6", "0.85"):
            kind = ["rgba", "hsla", "rgbslash", "rgb4", "informal4", "rgbslashpct"][rnd.randrange(6)]
            sp = SP.spell_translucent(fg, a, kind)
            if sp is None:
                continue
            for _ in range(n_bgs):
                b = G.uniform(rnd) if rnd.random() < 0.7 else rnd.choice([(0, 0, 0), (255, 255, 255), (26, 58, 107)])
                bk, bsp = rnd.choice(SP.available(b, ["hex6", "tuple", "rgb", "frac_tuple", "hsl_tuple", "str_tuple"]))
                cases.append({"cls": "same-string", "t": list(fg), "b": list(b), "tk": kind, "text": SP.jsonable(sp), "bk": bk, "bg": SP.jsonable(bsp),
                              "alpha": a, "fg": list(fg), "cfgs": [list(c) for c in (cfgs or rnd.sample(CONFIGS, 2))]})
    return cases


def lattice_cases(seed, salt, kind, cfgs_per_pair=1):
    """Enumerated sub-lattices (complete within themselves): 'websafe' = all 216 x 216 web-safe pairs; 'grey' = every third
    grey level squared. One or more configurations per pair, rotating deterministically."""
    rnd = G.rng("lattice", seed, salt, kind)
    if kind == "websafe":
        lv = [0, 51, 102, 153, 204, 255]
        cols = [(r, g, b) for r in lv for g in lv for b in lv]
    else:
        cols = [(v, v, v) for v in range(0, 256, 3)]
    cases = []
    k = 0
    for t in cols:
        for b in cols:
            cfgs = [CONFIGS[(k + j * 5) % len(CONFIGS)] for j in range(cfgs_per_pair)] if cfgs_per_pair < len(CONFIGS) else rnd.sample(CONFIGS, len(CONFIGS))
            k += 1
            tk = ["tuple", "hex6", "rgb"][k % 3]
            cases.append({"cls": "lattice-" + kind, "t": list(t), "b": list(b), "tk": tk, "text": SP.jsonable(SP.spell(t, tk)), "bk": "tuple", "bg": list(b),
                          "cfgs": [list(c) for c in cfgs]})
    return cases


def translucent_seen_as(rnd, t, b, kinds=None):
    """A translucent spelling whose exact source-over blend over b is unambiguously the 8-bit colour t (every channel's exact
    value within 0.2 of t's): -> (spelled, kind, fg, alpha_text) or None. The text 'as seen' is then t itself."""
    from fractions import Fraction
    kinds = kinds or (SP.TRANSLUCENT_KINDS + SP.TRANSLUCENT_KINDS_X)
    for a in rnd.sample(["0.9", "0.8", "0.75", "0.6", "0.5", "0.95", "0.4"], 7):
        af = Fraction(a)
        fg = []
        for tc, bc in zip(t, b):
            f = round((Fraction(tc) - (1 - af) * bc) / af)
            if not 0 <= f <= 255:
                break
            fg.append(int(f))
        else:
            ex = csscolor.blend(fg, af, b)
            if all(abs(e - tc) <= Fraction(1, 5) for e, tc in zip(ex, t)):
                for kind in rnd.sample(kinds, len(kinds)):
                    sp = SP.spell_translucent(tuple(fg), a, kind)
                    if sp is not None:
                        return sp, kind, tuple(fg), a
    return None


def chunk(cases, nshards):
    nshards = max(1, min(nshards, len(cases)))
    return [cases[i::nshards] for i in range(nshards)]


def readback(colour):
    """The colour as a CSS consumer (or, for tuples, a Python caller) reads it:
    int triple or None."""
    if type(colour) is tuple and len(colour) == 3 and all(type(v) is int and 0 <= v <= 255 for v in colour):
        return colour
    if isinstance(colour, str):
        try:
            sets, alpha, kind = csscolor.read_sets(colour)
        except csscolor.NotCSS:
            return None
        if alpha != 1:
            return None
        return tuple(max(s) for s in sets)
    return None


def observe(case, lib):
    """Run the library on one case. Returns obs dict:
    valid, text_rgb, bg_rgb (library's view), orig (oracle view of original
    colour or None when to be skipped), res {cfg: (colour, success) | ('EXC', repr)}"""
    text = SP.from_json(case["text"], case["tk"])
    bg = SP.from_json(case["bg"], case["bk"])
    obs = {"res": {}, "skip": None}
    bgi = tuple(case["b"])
    pairs = {}
    # half of the cases reuse ONE ColorPair object for every configuration and switch its public `large` attribute between
    # calls (object reuse); the other half build one object per text size
    reuse_one = (len(repr(case["text"])) + len(case["cfgs"]) + case["t"][0]) % 2 == 0
    for (mode, large, vr) in [tuple(c) for c in case["cfgs"]]:
        key = "one" if reuse_one else large
        if key not in pairs:
            try:
                pairs[key] = lib.ColorPair(text, bg, large_text=large)
            except Exception as e:  # construction must not raise (C14) - judged there
                obs["skip"] = f"constructor raised {type(e).__name__}"
                return obs
        pair = pairs[key]
        if reuse_one and getattr(pair, "large", large) != large:
            try:
                pair.large = large
            except Exception:      # a library that makes the attribute read-only is within the statement: use a fresh object
                pairs[key] = pair = lib.ColorPair(text, bg, large_text=large)
        if not pair.is_valid:
            obs["skip"] = "library rejects reference-valid spelling"
            obs["errors"] = list(pair.errors)
            return obs
        try:
            out = pair.make_readable(mode=mode, very_readable=vr)
        except Exception as e:
            out = ("EXC", f"{type(e).__name__}: {e}")
        obs["res"][(mode, large, vr)] = out
        obs["text_rgb"] = pair.text.rgb
        obs["bg_rgb"] = pair.bg.rgb
    # oracle view of the original colour
    if "alpha" in case:
        from fractions import Fraction
        exact = csscolor.blend(case["fg"], Fraction(case["alpha"]), bgi)
        comp = obs.get("text_rgb")
        if comp is None or any(abs(float(e) - c) > BLEND_TOL for e, c in zip(exact, comp)):
            obs["skip"] = "composite outside C13 tolerance"
            obs["exact"] = [round(float(e), 2) for e in exact]
            return obs
        obs["orig"] = tuple(comp)
    else:
        obs["orig"] = tuple(case["t"])
    obs["bgi"] = bgi
    return obs


def run_cases(shard, rec, lib, judges, on_skip=None):
    for case in shard["cases"]:
        obs = observe(case, lib)
        rec.ev(max(1, len(obs["res"])))
        rec.count("cases")
        rec.count("cls:" + case["cls"].rstrip("+-"))
        rec.count("text_kind:" + case["tk"])
        if obs["skip"]:
            rec.count("skipped:" + obs["skip"])
            if on_skip:
                on_skip(case, obs, rec)
            continue
        for j in judges:
            j(case, obs, rec)
