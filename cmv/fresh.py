"""Fresh-interpreter probe: python -m cmv.fresh '<json probe>' -> repr of result.
A probe is {"op": "fix"|"label"|"bulk", ...}; see run_probe()."""
import json
import sys


def to_py(x, kind=None):
    if isinstance(x, list) and kind != "list":
        return tuple(x)
    return x


def run_probe(lib, p):
    text = to_py(p["text"], p.get("tk"))
    bg = to_py(p["bg"], p.get("bk"))
    if p["op"] == "fix":
        pair = lib.ColorPair(text, bg, large_text=p["large"])
        return repr((pair.is_valid, pair.is_readable, pair.make_readable(mode=p["mode"], very_readable=p["vr"])))
    if p["op"] == "label":
        pair = lib.ColorPair(text, bg, large_text=p["large"])
        return repr((pair.is_valid, pair.is_readable, pair.text.rgb, pair.bg.rgb, pair.errors))
    if p["op"] == "bulk":
        return repr(lib.make_readable_bulk([(text, bg, p["large"])], mode=p["mode"], very_readable=p["vr"]))
    raise KeyError(p["op"])


def main():
    from cmv import env
    env.use_tree()
    from cmv.lib import Lib
    lib = Lib()
    p = json.loads(sys.argv[1])
    sys.stdout.write(run_probe(lib, p))


if __name__ == "__main__":
    main()
