"""I/O window: interpreter-level instrumentation for 'writes nothing / creates
nothing' properties.

  with IOWindow(cwd) as w:  ... library calls ...
  w.py_out, w.py_err   text written through sys.stdout / sys.stderr
  w.fd_out, w.fd_err   bytes written to file descriptors 1 / 2 behind Python's back
  w.events             audit events: write-opens and filesystem mutations
  w.created, w.changed, w.removed   cwd listing differences
"""
import io
import os
import sys
import tempfile

_MUTATING = {
    "os.remove", "os.rename", "os.mkdir", "os.rmdir", "os.chmod", "os.chown", "os.symlink", "os.link", "os.truncate",
    "os.utime", "os.chdir", "os.system", "os.exec", "os.posix_spawn", "os.fork", "subprocess.Popen", "shutil.copyfile", "shutil.copymode",
    "shutil.copystat", "shutil.copytree", "shutil.move", "shutil.rmtree", "shutil.make_archive", "tempfile.mkstemp",
    "tempfile.mkdtemp", "socket.connect", "socket.bind", "urllib.Request", "os.putenv", "os.unsetenv", "webbrowser.open",
}
_state = {"active": False, "events": None, "installed": False}
_WFLAGS = os.O_WRONLY | os.O_RDWR | os.O_CREAT | os.O_TRUNC | os.O_APPEND


def _hook(event, args):
    if not _state["active"]:
        return
    try:
        if event == "open":
            path, mode, flags = (list(args) + [None, None, None])[:3]
            writing = False
            if isinstance(mode, str) and any(ch in mode for ch in "wax+"):
                writing = True
            if isinstance(flags, int) and (flags & _WFLAGS):
                writing = True
            if writing:
                _state["events"].append(("open-for-write", str(path), str(mode)))
        elif event in ("os.rename", "os.remove") and args and isinstance(args[0], (str, bytes, os.PathLike)):
            # source and destination kept apart: a temporary file renamed onto a documented output is a way of writing it
            _state["events"].append((event, os.fsdecode(args[0]), os.fsdecode(args[1]) if event == "os.rename" else ""))
        elif event in _MUTATING:
            _state["events"].append((event, repr(args)[:200], ""))
    except Exception:
        pass


def install():
    if not _state["installed"]:
        sys.addaudithook(_hook)
        _state["installed"] = True


def _listing(d):
    out = {}
    for root, dirs, files in os.walk(d):
        for n in files + dirs:
            p = os.path.join(root, n)
            try:
                st = os.lstat(p)
                out[os.path.relpath(p, d)] = (st.st_size, st.st_mtime_ns, st.st_mode)
            except OSError:
                pass
    return out


class MinimalWriter:
    """A stdout replacement that only has write() and flush() (tee / logger adapters, GUI hosts)."""

    def __init__(self):
        self.chunks = []

    def write(self, s):
        self.chunks.append(s)
        return len(s)

    def flush(self):
        pass

    def getvalue(self):
        return "".join(self.chunks)


class IOWindow:
    def __init__(self, cwd=None, capture_fds=True, stdout_kind="stringio"):
        """stdout_kind: 'stringio' | 'minimal' (write/flush only) | 'none' (sys.stdout is None, as under pythonw)"""
        self.cwd = cwd or os.getcwd()
        self.capture_fds = capture_fds
        self.stdout_kind = stdout_kind

    def __enter__(self):
        install()
        self.events = []
        self._before = _listing(self.cwd)
        sys.stdout.flush()
        sys.stderr.flush()
        self._so, self._se = sys.stdout, sys.stderr
        self._bo, self._be = io.StringIO(), io.StringIO()
        if self.capture_fds:
            self._t1 = tempfile.TemporaryFile()
            self._t2 = tempfile.TemporaryFile()
            self._d1, self._d2 = os.dup(1), os.dup(2)
            os.dup2(self._t1.fileno(), 1)
            os.dup2(self._t2.fileno(), 2)
        if self.stdout_kind == "minimal":
            self._bo = MinimalWriter()
        sys.stdout, sys.stderr = (None if self.stdout_kind == "none" else self._bo), self._be
        _state["events"] = self.events
        _state["active"] = True
        return self

    def __exit__(self, *exc):
        _state["active"] = False
        sys.stdout, sys.stderr = self._so, self._se
        self.py_out, self.py_err = self._bo.getvalue(), self._be.getvalue()
        self.fd_out = self.fd_err = b""
        if self.capture_fds:
            os.dup2(self._d1, 1)
            os.dup2(self._d2, 2)
            os.close(self._d1)
            os.close(self._d2)
            for t, name in ((self._t1, "fd_out"), (self._t2, "fd_err")):
                t.seek(0)
                setattr(self, name, t.read())
                t.close()
        after = _listing(self.cwd)
        self._after = after
        self.created = sorted(set(after) - set(self._before))
        self.removed = sorted(set(self._before) - set(after))
        self.changed = sorted(k for k in after if k in self._before and after[k] != self._before[k])
        return False

    def silent(self):
        return not (self.py_out or self.py_err or self.fd_out or self.fd_err or self.events or self.created or self.removed or self.changed)

    def describe(self):
        return {"stdout": self.py_out[:200], "stderr": self.py_err[:200], "fd1": self.fd_out[:200].decode("utf-8", "replace"),
                "fd2": self.fd_err[:200].decode("utf-8", "replace"), "events": self.events[:6], "created": self.created[:6],
                "removed": self.removed[:6], "changed": self.changed[:6]}
