#!/usr/bin/env python3
"""Self-validation (not a registered check): apply each hand-written mutant to
a scratch worktree of /repo, confirm the 125 repository tests still pass, run
the owning check's quick tier against it and tabulate who catches what.

  tools/mutants.py [name-substring ...]      results -> tools/mutation_results.json
"""
import json
import os
import subprocess
import sys
import tempfile

HERE = os.path.dirname(os.path.dirname(os.path.abspath(__file__)))
OPT = "src/cm_colors/core/optimisation.py"
CONV = "src/cm_colors/core/conversions.py"
CON = "src/cm_colors/core/contrast.py"
PAR = "src/cm_colors/core/color_parser.py"
COL = "src/cm_colors/core/colors.py"
BULK = "src/cm_colors/core/cm_colors.py"
MET = "src/cm_colors/core/color_metrics.py"
MAIN = "src/cm_colors/cli/main.py"
REP = "src/cm_colors/cli/html_report.py"
VIS = "src/cm_colors/core/visualiser.py"
NAMED = "src/cm_colors/core/named_colors.py"

# (name, owning checks, file, old, new)
M = [
    ("c01-stuck-true", ["C01"], OPT, "            else:\n                return next_rgb, False\n", "            else:\n                return next_rgb, True\n"),
    ("c01-threshold-table-large-premium", ["C01", "C16"], OPT, "        if large:\n            min_contrast = 4.5\n            target_contrast = 4.5  # Aim", "        if large:\n            min_contrast = 3.0\n            target_contrast = 4.5  # Aim"),
    ("c01-success-vs-target-strict", ["C01"], OPT, "    success = final_contrast >= min_contrast\n    return tuned_rgb, success", "    success = final_contrast >= target_contrast\n    return tuned_rgb, success"),
    ("c02-best-contrast-zero", ["C02"], OPT, "    best_contrast = current_contrast\n    best_delta_e = float(\"inf\")", "    best_contrast = 0.0\n    best_delta_e = float(\"inf\")"),
    ("c02-early-return-aa-under-premium", ["C02", "C01"], OPT, "    required_contrast_for_check = min_contrast\n", "    required_contrast_for_check = 3.0 if large else 4.5\n"),
    ("c02-relaxed-returns-b-always", ["C02", "C01", "C16"], OPT, "    elif opt_b_success:\n        return opt_b_rgb, True\n    else:\n        # Return fail (return recursive result as best effort)\n        return rec_rgb, False", "    else:\n        return opt_b_rgb, opt_b_success"),
    ("c03-direction-reversed-midtones", ["C03"], OPT, "        search_up = bg_l < 0.5  # Lighten", "        search_up = bg_l < 0.35  # Lighten"),
    ("c03-fewer-bisection-steps", ["C03"], OPT, "        for _ in range(20):\n            mid = (low + high) / 2.0", "        for _ in range(4):\n            mid = (low + high) / 2.0"),
    ("c03-schedule-starts-large", ["C03"], OPT, "    strict_sequence = [0.8, 1.0, 1.2, 1.4, 1.6, 1.8, 2.0, 2.2, 2.5, 2.8, 3.0]\n\n    for _ in range(max_iterations):", "    strict_sequence = [2.8, 3.0]\n\n    for _ in range(max_iterations):"),
    ("c04-default-schedule-extended", ["C04"], OPT, "            4.0,\n            5.0,\n        ]\n\n    best_candidate = None", "            4.0,\n            5.0,\n            6.5,\n        ]\n\n    best_candidate = None"),
    ("c04-tolerance-test-dropped-descent", ["C04"], OPT, "            if final_delta_e <= delta_e_threshold:\n                return final_rgb", "            if final_delta_e <= delta_e_threshold * 2:\n                return final_rgb"),
    ("c04-recursive-restarts-from-original", ["C04"], OPT, "        next_rgb = generate_accessible_color(\n            current_rgb,\n            bg_rgb,\n            large=large,\n            target_contrast=target_contrast,\n            min_contrast=min_contrast,\n            delta_e_sequence=strict_sequence,\n        )\n\n        if next_rgb == current_rgb:", "        next_rgb = generate_accessible_color(\n            current_rgb,\n            bg_rgb,\n            large=large,\n            target_contrast=target_contrast,\n            min_contrast=min_contrast,\n            delta_e_sequence=[v * 1.5 for v in strict_sequence],\n        )\n\n        if next_rgb == current_rgb:"),
    ("c05-weight-4th-decimal", ["C05"], CON, "0.2126 * r_linear + 0.7152 * g_linear + 0.0722 * b_linear", "0.2127 * r_linear + 0.7151 * g_linear + 0.0722 * b_linear"),
    ("c05-level-strict-gt", ["C05"], CON, "        elif contrast_ratio >= 4.5:\n            return \"AA\"\n        else:\n            return \"FAIL\"\n", "        elif contrast_ratio > 4.5:\n            return \"AA\"\n        else:\n            return \"FAIL\"\n"),
    ("c05-ratio-no-minmax", ["C05"], CON, "    lighter = max(text_luminance, bg_luminance)\n    darker = min(text_luminance, bg_luminance)", "    lighter = max(text_luminance, bg_luminance)\n    darker = bg_luminance if text_luminance > bg_luminance else text_luminance"),
    ("c06-hsl-one-decimal", ["C06", "C01"], CONV, "    return f\"hsl({h}, {s*100}%, {l*100}%)\"", "    return f\"hsl({h:.1f}, {s*100:.1f}%, {l*100:.1f}%)\""),
    ("c06-list-returns-list", ["C06"], PAR, "    if format_type == \"rgb_tuple\":\n        return rgb\n", "    if format_type == \"rgb_tuple\":\n        return list(rgb)\n"),
    ("c06-failure-path-rgb-string", ["C06"], COL, "                if c.is_valid:\n                    formatted_color = format_color(c.rgb, self.text._format)\n                    result = (formatted_color, success)", "                if c.is_valid and (success or self.text._format != \"hsl\"):\n                    formatted_color = format_color(c.rgb, self.text._format)\n                    result = (formatted_color, success)"),
    ("c07-keyword-wrong-value", ["C07"], NAMED, None, None),
    ("c07-percent-scaled-256", ["C07"], PAR, "            return max(0.0, min(255.0, v * 255.0 / 100.0))", "            return max(0.0, min(255.0, v * 256.0 / 100.0))"),
    ("c07-hsla-composite-over-white", ["C07", "C13"], PAR, "                return hsla_to_rgb(s, bg_rgb)\n            else:\n                # HSL without alpha", "                return hsla_to_rgb(s, None)\n            else:\n                # HSL without alpha"),
    ("c07-hue-sector-error", ["C07"], CONV, "            if t < 2 / 3:\n                return p + (q - p) * (2 / 3 - t) * 6\n            return p", "            if t < 2 / 3:\n                return p + (q - p) * (0.66 - t) * 6\n            return p"),
    ("c08-premium-target-4.5", ["C08"], MAIN, "                        target_ratio = 7.0 if premium else 4.5", "                        target_ratio = 4.5"),
    ("c08-counter-twice", ["C08"], MAIN, "                                    update_decl_value(color_decl, tuned_rgb)\n                                    modified = True\n", "                                    update_decl_value(color_decl, tuned_rgb)\n                                    modified = True\n                                    if bg_decl is None:\n                                        stats[\"tuned\"] += 1\n"),
    ("c08-nested-not-written", ["C08", "C09"], MAIN, "                nested_css = tinycss2.serialize(nested_rules)\n                new_content = tinycss2.parse_component_value_list(nested_css)\n                node.content = new_content", "                if node.lower_at_keyword == \"media\":\n                    nested_css = tinycss2.serialize(nested_rules)\n                    node.content = tinycss2.parse_component_value_list(nested_css)"),
    ("c08-card-shows-before", ["C08"], MAIN, "                                        \"tuned_text\": tuned_rgb,", "                                        \"tuned_text\": tuned_rgb if bg_decl else text_color_str,"),
    ("c09-skip-comments", ["C09"], MAIN, "            declarations = rule_declarations_map.get(id(node))\n            if declarations is None:\n                declarations = tinycss2.parse_declaration_list(\n                    node.content, skip_whitespace=False, skip_comments=False\n                )", "            declarations = rule_declarations_map.get(id(node))\n            if declarations is None:\n                declarations = tinycss2.parse_declaration_list(\n                    node.content, skip_whitespace=False, skip_comments=True\n                )"),
    ("c09-writes-input-when-no-change", ["C09", "C18"], MAIN, "            output_filename = file_path.stem + \"_cm\" + file_path.suffix\n            output_path = file_path.parent / output_filename\n", "            output_filename = file_path.stem + \"_cm\" + file_path.suffix\n            output_path = file_path.parent / output_filename\n            with open(file_path, \"a\", encoding=\"utf-8\") as f:\n                f.write(\"\")\n            (file_path.parent / (file_path.stem + \".bak\")).write_text(css_content, encoding=\"utf-8\")\n"),
    ("c09-important-lost", ["C09", "C08"], MAIN, "def update_decl_value(decl, new_value_str):\n    decl.value = tinycss2.parse_component_value_list(new_value_str)", "def update_decl_value(decl, new_value_str):\n    decl.value = tinycss2.parse_component_value_list(new_value_str)\n    decl.important = False"),
    ("c10-matrix-typo", ["C10"], CONV, "    a = 1.9779984951 * l_prime - 2.4285922050 * m_prime + 0.4505937099 * s_prime", "    a = 1.9779984951 * l_prime - 2.4285922050 * m_prime + 0.4505937909 * s_prime"),
    ("c10-hue-not-normalised", ["C10"], CONV, "    return hue + 360 if hue < 0 else hue", "    return hue + 360 if hue < -90 else hue"),
    ("c11-25-pow-6", ["C11"], MET, "    RC = 2 * math.sqrt(pow(C_mean_prime, 7) / (pow(C_mean_prime, 7) + pow(25, 7)))", "    RC = 2 * math.sqrt(pow(C_mean_prime, 7) / (pow(C_mean_prime, 7) + pow(25, 6)))"),
    ("c11-hue-mean-wrap", ["C11"], MET, "    elif abs(h1_prime - h2_prime) > 180 and (h1_prime + h2_prime) < 360:\n        H_mean_prime = (h1_prime + h2_prime + 360) / 2", "    elif abs(h1_prime - h2_prime) > 180 and (h1_prime + h2_prime) < 360:\n        H_mean_prime = (h1_prime + h2_prime) / 2"),
    ("c11-d50-white", ["C11"], CONV, "    xn, yn, zn = 95.047, 100.000, 108.883", "    xn, yn, zn = 96.422, 100.000, 82.521"),
    ("c12-large-not-forwarded-status", ["C12", "C01"], BULK, "            new_pair = ColorPair(tuned_color, bg, large)", "            new_pair = ColorPair(tuned_color, bg)"),
    ("c12-break-for-continue", ["C12", "C14"], BULK, "            results.append((text, \"invalid color\"))\n            continue", "            results.append((text, \"invalid color\"))\n            break"),
    ("c12-mode-ignored-when-vr", ["C12"], BULK, "        tuned_color, success = pair.make_readable(\n            mode=mode, very_readable=very_readable\n        )", "        tuned_color, success = pair.make_readable(\n            mode=mode if not very_readable else 1, very_readable=very_readable\n        )"),
    ("c13-alpha-swapped-hsla", ["C13", "C07"], CONV, "    final_r = int(a * r + (1 - a) * bg_r)", "    final_r = int((1 - a) * r + a * bg_r)"),
    ("c13-bg-context-dropped", ["C13"], COL, "        self.text = Color(text_color, background_context=self.bg)", "        self.text = Color(text_color, background_context=self.bg if isinstance(text_color, str) else None)"),
    ("c14-narrow-except", ["C14"], COL, "        except (ValueError, TypeError) as e:", "        except ValueError as e:"),
    ("c14-unchecked-index", ["C14"], PAR, "            tokens = _extract_number_tokens(s_lower)\n            if not tokens:\n                raise ValueError(f\"Could not parse numeric components from '{s}'\")", "            tokens = _extract_number_tokens(s_lower)\n            if tokens[0] is None:\n                raise ValueError(f\"Could not parse numeric components from '{s}'\")"),
    ("c15-memo-partial-key", ["C15"], OPT, "def check_and_fix_contrast(\n    text,\n    bg,\n    large: bool = False,\n    mode: int = 1,\n    premium: bool = False,\n):", "_memo = {}\n\n\ndef check_and_fix_contrast(text, bg, large=False, mode=1, premium=False):\n    key = (tuple(text), tuple(bg), large, premium)\n    if key not in _memo:\n        _memo[key] = _check_and_fix_contrast(text, bg, large, mode, premium)\n    return _memo[key]\n\n\ndef _check_and_fix_contrast(\n    text,\n    bg,\n    large: bool = False,\n    mode: int = 1,\n    premium: bool = False,\n):"),
    ("c15-mutable-default-schedule", ["C15", "C04"], OPT, "    delta_e_sequence: Optional[List[float]] = None,\n) -> Tuple[int, int, int]:", "    delta_e_sequence: Optional[List[float]] = None,\n    _seen: list = [],\n) -> Tuple[int, int, int]:"),
    ("c15-make-readable-overwrites-text", ["C15"], COL, "        # Handle visualizers\n        if show or save_report:", "        if success and isinstance(result[0], tuple):\n            self.text._rgb = result[0]\n        # Handle visualizers\n        if show or save_report:"),
    ("c16-relaxed-min-de-even-when-rec-succeeded", ["C16"], OPT, "    if rec_success:\n        return rec_rgb, True\n\n    # If recursive failed", "    if rec_success and calculate_delta_e_2000(text_rgb, rec_rgb) <= 6.0:\n        return rec_rgb, True\n\n    # If recursive failed"),
    ("c16-vr-changes-target", ["C16"], OPT, "            min_contrast = 7.0\n            target_contrast = 7.0", "            min_contrast = 7.0\n            target_contrast = 7.5"),
    ("c17-stray-print", ["C17"], BULK, "        if not pair.is_valid:\n            results.append((text, \"invalid color\"))", "        if not pair.is_valid:\n            print(f\"skipping invalid pair {i}\")\n            results.append((text, \"invalid color\"))"),
    ("c17-report-always-when-fixed", ["C17"], COL, "            if save_report:\n                # For single pair, generate a quick report", "            if save_report or (show and success):\n                # For single pair, generate a quick report"),
    ("c17-preview-reassigns-result", ["C17"], COL, "                if isinstance(tuned_rgb, tuple):\n                    # It's an RGB tuple, convert to hex\n                    r, g, b = tuned_rgb\n                    tuned_hex = f\"#{r:02x}{g:02x}{b:02x}\"", "                if isinstance(tuned_rgb, tuple):\n                    # It's an RGB tuple, convert to hex\n                    r, g, b = tuned_rgb\n                    tuned_hex = f\"#{r:02x}{g:02x}{b:02x}\"\n                    result = (tuned_hex, success)"),
    ("c18-variables-hoisted", ["C18", "C08"], MAIN, "            variables = {}\n            # We need a way to map rules", "            variables = globals().setdefault(\"_vars\", {})\n            # We need a way to map rules"),
    ("c18-cm-filter-removed", ["C18"], MAIN, "            if not p.name.endswith(\"_cm.css\"):\n                yield p", "            if not p.name.endswith(\"_cm_cm.css\"):\n                yield p"),
    ("c18-try-outside-loop", ["C18"], MAIN, None, None),
    ("c19-escape-quote-false", ["C19"], REP, "            bg = html.escape(str(pair[\"bg\"]))", "            bg = html.escape(str(pair[\"bg\"]), quote=False)"),
    ("c19-field-unescaped", ["C19"], VIS, "                <div class=\"file-info\">{html.escape(str(file_path))}</div>", "                <div class=\"file-info\">{file_path}</div>"),
]


def sh(cmd, **kw):
    return subprocess.run(cmd, shell=True, stdout=subprocess.PIPE, stderr=subprocess.STDOUT, text=True, **kw)


def special(name, wt):
    if name == "c07-keyword-wrong-value":
        p = os.path.join(wt, NAMED)
        s = open(p).read()
        import re
        m = re.search(r'"darkslategrey":\s*"(#[0-9a-fA-F]{6})"', s)
        if not m:
            return False
        s = s.replace(m.group(0), m.group(0).replace(m.group(1), "#2f4f4e"))
        open(p, "w").write(s)
        return True
    if name == "c18-try-outside-loop":
        p = os.path.join(wt, MAIN)
        s = open(p).read()
        old = "        except Exception as e:\n            click.echo(f\"Error processing {file_path}: {e}\", err=True)\n            import traceback\n\n            traceback.print_exc()\n"
        new = "        except UnicodeDecodeError as e:\n            click.echo(f\"Error processing {file_path}: {e}\", err=True)\n            break\n        except Exception as e:\n            click.echo(f\"Error processing {file_path}: {e}\", err=True)\n            import traceback\n\n            traceback.print_exc()\n"
        if s.count(old) != 1:
            return False
        open(p, "w").write(s.replace(old, new))
        return True
    return False


def main():
    want = sys.argv[1:]
    results = []
    for name, owners, f, old, new in M:
        if want and not any(w in name for w in want):
            continue
        wt = tempfile.mkdtemp(prefix="mut-", dir="/tmp")
        os.rmdir(wt)
        r = sh(f"git -C /repo worktree add -q --detach {wt} HEAD")
        try:
            if old is None:
                ok = special(name, wt)
            else:
                p = os.path.join(wt, f)
                s = open(p).read()
                ok = s.count(old) == 1
                if ok:
                    open(p, "w").write(s.replace(old, new))
            if not ok:
                results.append({"mutant": name, "status": "PATTERN-NOT-FOUND"})
                print(name, "PATTERN-NOT-FOUND")
                continue
            t = sh(f"cd {wt} && PYTHONPATH={wt}/src /venv/bin/python -m pytest -q -p no:cacheprovider -x 2>&1 | tail -1").stdout.strip()
            tests_pass = "125 passed" in t
            row = {"mutant": name, "tests": t[:60], "tests_pass": tests_pass, "checks": {}}
            for c in owners:
                o = sh(f"cd {HERE} && CMV_REPO={wt} ./check {c} quick")
                first = next((l for l in o.stdout.splitlines() if l.startswith("VIOLATION")), "")
                row["checks"][c] = {"rc": o.returncode, "first": first[:260]}
            row["caught_by"] = [c for c, v in row["checks"].items() if v["rc"] == 1]
            results.append(row)
            print(f"{name:45s} tests_pass={tests_pass} " + " ".join(f"{c}:rc={v['rc']}" for c, v in row["checks"].items()), flush=True)
        finally:
            sh(f"git -C /repo worktree remove --force {wt}")
            sh(f"rm -rf {wt}")
    out = os.path.join(HERE, "tools", "mutation_results.json")
    prev = []
    if want and os.path.exists(out):
        prev = [r for r in json.load(open(out)) if not any(w in r["mutant"] for w in want)]
    json.dump(prev + results, open(out, "w"), indent=1)


if __name__ == "__main__":
    main()
