#!/bin/bash
# tools/sweep.sh <tier> "<seeds>" [ids...]   - self-validation: every check must be silent on the unchanged tree
cd "$(dirname "${BASH_SOURCE[0]}")/.." || exit 1
tier="${1:-quick}"; seeds="${2:-0 1 2 3}"; shift 2
ids="$*"; [ -z "$ids" ] && ids="C01 C02 C03 C04 C05 C06 C07 C08 C09 C10 C11 C12 C13 C14 C15 C16 C17 C18 C19"
bad=0
for s in $seeds; do
  for id in $ids; do
    t0=$(date +%s)
    out=$(VERIF_SEED=$s ./check "$id" "$tier" 2>&1); rc=$?
    t1=$(date +%s)
    line=$(echo "$out" | grep -v '^KNOWN-FINDING' | tail -1 | cut -c1-200)
    nk=$(echo "$out" | grep -c '^KNOWN-FINDING')
    echo "seed=$s $id $tier rc=$rc ${nk}known $((t1-t0))s :: $line"
    if [ $rc -ne 0 ]; then bad=1; echo "$out" | grep -E '^(VIOLATION|INCONCLUSIVE)' | head -5 | cut -c1-400; fi
  done
done
exit $bad
