#!/usr/bin/env python3
"""Self-validation: archive sub-agent seeded changes under /verif/seeded/<id>-<variant>/
(patch.diff, demo.py, NOTES.md, meta.json) after re-confirming each one in a
scratch worktree with tools/seedcheck.sh.   tools/seed_archive.py [ID-V ...]"""
import json
import os
import re
import shutil
import subprocess
import sys

HERE = os.path.dirname(os.path.dirname(os.path.abspath(__file__)))
SRC = "/tmp/seed"

NEEDS = {
    "C01-A": "hsl() output rounded to whole degrees / one decimal: only hsl() text input, chromatic, fixed result within one rounding step of the threshold (~2% of hsl inputs)",
    "C01-B": "result memo keyed without min_contrast: same pair/size/mode fixed twice in one process with different very_readable",
    "C02-A": "best_contrast initialised to 0: unfixable pair with text on the side the lightness search does not favour (vivid text on mid/light bg), ~2% of unfixable pairs",
    "C02-B": "two cooperating edits: early 'already passes' exit uses the target under very_readable and the large/very_readable target raised to 7.0: only large_text + very_readable + mode 0 with original ratio in [4.5, 7.0)",
    "C03-A": "search direction by 'white out-contrasts black' instead of L<0.5: backgrounds with OKLCH L in [0.50, 0.565] and darker text just under the large-text minimum",
    "C03-B": "shared strict step list extended in place by the relaxed fallback: an earlier mode-2 call that reaches the fallback in the same process, then mode 1/2 with very_readable=False overshoots (dE 11)",
    "C04-A": "default schedule constant extended in place by the relaxed fallback: mode 2 on an unrepairable pair, then mode 0 / default-schedule call in the same interpreter exceeds dE 5",
    "C04-B": "hsl() output rounded to integers: hsl() text input, mode 0, result near the 5.0 budget lands at dE 5.1-5.9",
    "C05-A": "luminance memo with a colliding packed key (base 255): both members of a colliding pair evaluated in one process, e.g. (0,255,0) after (1,0,0)",
    "C05-B": "level computed from the ratio rounded to 2 decimals: pairs whose exact ratio lies in [2.995,3), [4.495,4.5), [6.995,7) (0.01-0.08% of pairs)",
    "C06-A": "saturation clamp removed in rgb_to_hsl: hsl() input and fully saturated result hitting the float overshoot (48,336 colours, 0.29%)",
    "C06-B": "int-triple fast path in Color._parse keeps a list: text given as a list of ints AND the pair already readable (no fix attempted)",
    "C07-A": "hue wrapped with math.fmod: negative hues congruent to (0,120) degrees such as -300, -660, -1075 (hsl strings and tuples)",
    "C07-B": "bare-hex regex matched against the un-lowercased string: hex without '#' containing an upper-case letter",
    "C08-A": "first declaration wins instead of last: rules declaring color or background-color more than once",
    "C08-B": "at-rule block rebuilt only if the last inner style rule changed: @media with an earlier adjusted rule and an unchanged last rule, or a fix nested two at-rules deep",
    "C09-A": "modified rule re-serialised from declarations only: adjusted literal-colour rule whose block holds a comment or nested at-rule",
    "C09-B": "no second _cm suffix: explicit file argument whose own name ends in _cm.css is overwritten in place",
    "C10-A": "achromatic cut-off on squared chroma with the wrong exponent: near-neutral non-grey colours (3,970 of 2^24)",
    "C10-B": "lru_cache on oklch_to_rgb keyed on rounded L,C,H: vivid colours with one nearly-off channel (0.08%) round-trip off by one",
    "C11-A": "mean hue 'on the short arc' loses the rotation term: hue gap > 180 with h1'+h2' < 360 (pink/red vs teal/cyan, ~2% of pairs, large dE only)",
    "C11-B": "Lab memo with colliding packed key (base 255): both members of a colliding pair converted in one process, e.g. (0,0,255) and (0,1,0)",
    "C12-A": "large flag not reset per entry: (text,bg,True) entry before a 2-element entry in one bulk call",
    "C12-B": "mode = mode or 1: mode=0 in the bulk path on pairs where strict and default differ",
    "C13-A": "parse cache keyed on the string alone: same translucent text string reused in one interpreter on a different background",
    "C13-B": "make_readable passes the original inputs to the fixer: translucent text on a non-white background is re-composited over white inside the fixer",
    "C14-A": "number tokens no longer str()-wrapped: 4-element RGBA-looking list/tuple with a None component after in-range components raises AttributeError",
    "C14-B": "hex pairs parsed with int(pair,16) without digit whitelist: '#ffff-1' is valid with rgb (255,255,-1)",
    "C15-A": "lru_cache on parse_color_to_rgb: (1,0,0) and (1.0,0.0,0.0) are hash-equal but denote different colours; whichever is parsed first wins for the process",
    "C15-B": "large=False initialised once before the loop: a 2-element bulk entry after a (..,True) entry",
    "C16-A": "relaxed mode drops the 'recursive succeeded => return it' shortcut: pairs mode 1 fixes only after several steps, mostly very_readable",
    "C16-B": "relaxed-strategy memo keyed without the contrast targets: same pair through mode 2 first as readable then as very_readable",
    "C17-A": "quick-report path made absolute at import time: chdir after import, then save_report=True writes outside the cwd",
    "C17-B": "warnings.warn on the 'alpha > 1 means percent' branch: RGBA alpha written as a bare number in (1,100] prints to stderr on plain calls",
    "C18-A": "custom-property table hoisted out of the per-file loop: a file using var(--x) it does not define while an earlier-visited file defines it",
    "C18-B": "output name split at the first dot: multi-dot names (normalize.min.css) escape the _cm.css filter and compound on a repeat run",
    "C19-A": "quote=False escaping for text-only fields that are also interpolated into style=: tuned pair whose text colour string contains a double quote",
    "C19-B": "'already escaped' shortcut: colour string containing a character reference plus markup is emitted raw in the save_report path",
}
FIRST_MISSED = {"C09-B": "file-name classes for explicit single-file targets added to C09", "C04-A": "in-process mode-1/2 history before strict calls and before default-schedule routine calls added to C04",
                "C15-A": "hash-equal int/float/bool tuple aliases added to C15 probes and histories", "C15-B": "2-element probe entry after large=True entries added to C15 bulk positions",
                "C17-B": "leniently accepted and invalid inputs added to C17's default-path windows", "C18-B": "multi-dot / spaced file names, documented-output-name and full-tree idempotence checks added to C18"}


NEEDS2 = {
    "C01-R2A": "luminance taken from the XYZ matrix row (0.2126729/0.7151522/0.0721750): chromatic colours whose true ratio is within ~1e-3 of a threshold",
    "C01-R2B": "strategy memo keyed without very_readable: same pair/mode/size fixed twice in one interpreter with different very_readable",
    "C01-R2C": "two cooperating edits (early-exit threshold 7.0 under premium + success recomputed from it): only large_text + very_readable",
    "C02-R2A": "first binary-search candidate adopted even when its contrast is lower: vivid text brighter than a light-ish background (~2% of random pairs)",
    "C02-R2B": "Color parse cache keyed on the string only: same translucent rgba()/hsla() string used with two backgrounds in one process",
    "C02-R2C": "two cooperating edits: premium+large target 7.0 and early exit on target under premium: large+very_readable+mode 0, ratio in [4.5,7)",
    "C03-R2A": "'hue undefined' chroma tolerance 1e-10 -> 1e-2: faintly tinted near-greys (chroma 0.003-0.01) get hue 0",
    "C03-R2B": "shared strict step list extended in place by the relaxed fallback: earlier mode-2 call on an unfixable pair in the same process",
    "C03-R2C": "strict strategy stops passing target/min: only mode 0 with very_readable=True needing more than dE 0.8",
    "C04-R2A": "make_readable passes the original inputs to the fixer: translucent text on a non-white background re-composited over white, strict bound around the wrong colour",
    "C04-R2B": "success memo keyed without mode: pair fixed by mode 1/2 earlier, then mode 0 on the same pair",
    "C04-R2C": "two cooperating edits: schedules hoisted to constants + relaxed schedule built with += on the strict constant: mode-2 fallback earlier in the process",
    "C05-R2A": "two edits: rgb_to_linear accepts 'already normalised' values and luminance calls it per channel: any channel equal to 1",
    "C05-R2B": "get_wcag_level memo keyed without large: same colours queried at both text sizes in one process",
    "C05-R2C": "bulk re-measures the returned colour only on success: very_readable/mode 0 fixes that fail but return a better colour get the original's label",
    "C06-R2A": "hsl S/L reader divides by 100 only above 1: hsl() strings with saturation or lightness in (0,1]%",
    "C06-R2B": "make_readable stores the intermediate Color as self.text after success: second call on the same ColorPair returns rgb()/tuple notation",
    "C06-R2C": "two cooperating edits in detect_color_format and format_color: 3-digit hex without '#' returns rgb()/tuple",
    "C07-R2A": "number regex requires a digit before the dot: rgba() alpha written '.5' is read as 5%",
    "C07-R2B": "string memo stored only without background but looked up always: same translucent string first without, then with a background",
    "C07-R2C": "two cooperating edits dropping both hue wraps on the hsla path: hsla() hue outside about [-240, 600]",
    "C08-R2A": "background passed to the parser only for rgba/hsla/rgba_tuple formats: alpha-carrying rgb() text (rgb(r g b / a), rgb(r,g,b,a)) on a non-white background",
    "C08-R2B": "custom-property table created once before the per-file loop: directory run where a later file uses var(--x) only an earlier file defines",
    "C08-R2C": "two cooperating edits: target ratio becomes a keyword the nested recursion does not forward: --premium and a rule inside @media/@supports with ratio in [4.5,7)",
    "C09-R2A": "new colour patched into the block text by regex: an earlier *-color declaration with the same literal is rewritten instead",
    "C09-R2B": "stem.removesuffix('_cm'): explicit run on theme_cm.css overwrites the input",
    "C09-R2C": "two cooperating edits: declaration map keyed by source position and hoisted out of the per-file loop: multi-file run, rule at the same line/column as another file's :root block",
    "C10-R2A": "hue helper treats |a|,|b| < 5e-3 as zero (harmless for CIELAB, not for OKLab): near-neutral off-greys get H=0 and do not round-trip",
    "C10-R2B": "memo on rgb_to_oklch_safe keyed by packed int: an invalid triple first, then the valid colour it aliases returns the grey fallback",
    "C10-R2C": "two cooperating edits (linear clamp removed + abs() in the toe test): out-of-gamut triples reach pow(negative) -> TypeError, safe differs from plain",
    "C11-R2A": "precedence slip in the linear branch of the Lab transform: colours with X/Xn, Y/Yn or Z/Zn below (6/29)^3 (near-blacks, dark browns/olives)",
    "C11-R2B": "dE cache keyed on the six sorted channel values: different pairs built from the same six numbers in one process",
    "C11-R2C": "two cooperating edits around rgb_to_linear: a channel equal to 1 is taken as full intensity in rgb_to_xyz",
    "C12-R2A": "bulk keeps the untouched input when success is False: unfixable entries differ from the single-pair best attempt",
    "C12-R2B": "bulk memo keyed without large: same colours/notation/mode at both text sizes in one process or one mixed list",
    "C12-R2C": "two cooperating edits: get_wcag_level returns 'AA Large' and bulk maps levels through a table without it: large-text results with ratio in [3,4.5)",
    "C13-R2A": "number regex requires a digit before the dot: alpha '.5' in rgb()/rgba() strings read as 5%",
    "C13-R2B": "memo for 'opaque' string formats also catches rgb(r g b / a), rgb(r,g,b,a), 'r, g, b, a': same string reused over another background",
    "C13-R2C": "two cooperating edits: fixer returns the original translucent input on the 'already passes' path, re-parsed without background context",
    "C14-R2A": "hex pairs parsed with int(pair,16): '#0000-f' valid with rgb (0,0,-15); make_readable/bulk then raise",
    "C14-R2B": "parse memo stores (format, rgb) but not the error: second construction of the same invalid string has error None",
    "C14-R2C": "two cooperating edits: detect_color_format moved out of the try and made to read the alpha: 4-element sequences with unusable alpha raise ValueError",
    "C15-R2A": "lru_cache on Color parsing that cannot tell (1,0,0) from (1.0,0.0,0.0) (and int-RGBA from float-HSLA tuples)",
    "C15-R2B": "try/except unpacking with large=False hoisted above the loop: 2-element bulk entry after a (..,True) entry",
    "C15-R2C": "two cooperating edits: default compositing backdrop becomes a module constant that the CLI sets from --default-bg and restores without finally: early 'No CSS files found' return leaks it",
    "C16-R2A": "relaxed mode drops the up-front recursive pass: mode-1 answer competes with the single-shot relaxed search (1-3% of pairs, 10-15% very_readable)",
    "C16-R2B": "result cache keyed without large: mode 1 normal size, then mode 1 large (stale), then mode 2 large (fresh)",
    "C16-R2C": "two cooperating edits: 'AA Large' label + success re-derived from the label: ordinary large-text result in [3,4.5) reported failed while very_readable succeeds",
    "C17-R2A": "show=True returns early with the raw input on the 'already accessible' arm: non-canonical spellings of already readable text",
    "C17-R2B": "lru_cache on the resolved report path: save_report, chdir, save_report again writes into the old directory",
    "C17-R2C": "two cooperating edits: package logger with a stdout handler + logger.info on the relaxed fallback path: plain mode-2 call on an unfixable pair prints",
    "C18-R2A": "with_name(stem+'_cm').with_suffix(suffix): stems containing a dot (theme.min.css) write theme.css and compound",
    "C18-R2B": "per-run tuned cache keyed on (text rgb, bg rgb): same failing pair in different notations in different files",
    "C18-R2C": "two cooperating edits: OSError wrapped in click.FileError + click exceptions re-raised in the per-file loop: unreadable *.css entry aborts the run",
    "C19-R2A": "NFKC normalisation applied after escaping: fullwidth/small-form < > & \" in selectors or file names fold into live markup",
    "C19-R2B": "directory part joined raw after escaping the file name: stylesheet in a folder whose name contains < or &",
    "C19-R2C": "two cooperating edits: tuned_fg no longer escaped + bulk keeps the caller's spelling when nothing changed: already readable pair with markup in the colour string",
}
FIRST_MISSED2 = {
    "C02-R2B": "same-string shard (one translucent string over many backgrounds in one process); a composite outside C13's tolerance is now a C02 violation",
    "C05-R2C": "bulk status judged on pairs that need fixing under every mode/very_readable, including failed fixes",
    "C07-R2B": "the same translucent string parsed over a sequence of backgrounds (none, bg1, bg2, none, bg)",
    "C08-R2A": "translucent text spellings (rgba, hsla, rgb(r,g,b,a), rgb(r g b / a)) in generated sheets, judged over the rule's own background",
    "C10-R2B": "alias-after-invalid history for the safe variants",
    "C12-R2B": "twin entries: same colours and notation at the other text size",
    "C13-R2B": "alpha-carrying rgb() and informal spellings from a small pool, so strings repeat across backgrounds",
    "C15-R2C": "early-ending in-process CLI runs (empty / outputs-only / non-css target) with --default-bg, and translucent-background probes",
    "C16-R2B": "configuration order shuffled per pair",
    "C17-R2B": "working directory changed between calls",
    "C18-R2B": "same failing pairs in every file, each file in its own notation, first in the file",
    "C19-R2A": "Unicode compatibility forms of markup metacharacters in the alphabet",
}


NEEDS3 = {
    "C01-R3A": "untyped lru_cache on Color parsing: (1,1,1) / (1.0,1.0,1.0) / (True,True,True) share an entry; a 0/1 tuple background after its equal twin of the other type",
    "C01-R3B": "success overwritten from the AA/AAA badge in the show/save_report path: very_readable + show/save_report and a result between AA and AAA",
    "C02-R3A": "lru_cache(color_input, bg_rgb) conflates hash-equal int/float 0-1 tuples (also through the optimiser's re-parse of resolved RGB triples)",
    "C02-R3B": "number regex without the leading-dot form: alpha written '.8' becomes 8% and the text is composited with the wrong alpha",
    "C03-R3A": "hue-drift guard without wrap-around in binary_search_lightness: text hues on the 0/360 seam (#660033, #ff0088, palevioletred); ~2 per million random inputs",
    "C03-R3B": "per-call bulk de-duplication keyed on (str(text), str(bg)) without the size flag: same colours twice in one list at both sizes, normal first",
    "C04-R3A": "dE routine keeps a reference to its last first-argument object: a list overwritten in place between two back-to-back calls of a search routine",
    "C04-R3B": "--mode not forwarded to rules nested in @media/@supports: only cm-colors --mode 0 on nested rules that mode 1 moves further than dE 5",
    "C05-R3A": "bulk size flag leaks to later 2-element entries: mixed-shape list with a (..,True) entry before a 2-element one whose contrast is between thresholds",
    "C05-R3B": "one-entry memo of the last background keeps the caller's list object: same list overwritten in place and passed again in the very next call",
    "C06-R3A": "format table keyed on exact type: tuple/list subclasses (namedtuple colours) come back as hex",
    "C06-R3B": "warnings.warn in the hex-default branch of format_color + the blanket except in make_readable: with warnings escalated to errors rgba/hsla/RGBA-tuple inputs lose hex output",
    "C07-R3A": "parse cache key drops all whitespace: informal '10 20 30' then bare hex '102030' (same digits) in one process",
    "C07-R3B": "number regex loses the leading-dot form: rgba(0,0,0,.5) read as 5%",
    "C08-R3A": "first declaration wins (next()) instead of last: rules declaring color/background-color twice with different values",
    "C08-R3B": "custom-property table moved out of the per-file loop: directory run, later file uses var(--x) only an earlier file defines",
    "C09-R3A": "click.Path(resolve_path=True): a symlink argument writes the output beside the link target, not beside the given path",
    "C09-R3B": "rewritten colour value replaces the whole value: a comment inside an adjusted colour value is dropped (regression of repair eb7d0fa)",
    "C10-R3A": "memo on oklch_to_rgb_safe keyed on rounded (L,C,H): two different valid triples sharing a key across an 8-bit rounding boundary",
    "C10-R3B": "is_valid_rgb tightened to ints: float-typed integral channels (200.0,30.0,30.0) make the safe variant return the grey fallback (judged outside the property, see DESIGN)",
    "C11-R3A": "dE routine keeps a reference to its last first-argument object: same list changed in place between consecutive calls",
    "C11-R3B": "bounded Lab cache keyed with radix 255: (r,g,255)/(r,g+1,0) collide, e.g. chartreuse/maroon; 0 deviations in 300k random inputs",
    "C12-R3A": "per-call cache keyed on the raw arguments: (1,0,0) and (1.0,0.0,0.0) in one list share an entry",
    "C12-R3B": "len(list(pairs)) pre-pass with save_report=True: a one-shot iterator (zip/generator) is exhausted and [] returned",
    "C13-R3A": "number regex loses the leading-dot form: alpha '.5' becomes 5%, '.1' becomes 100%, '.125' invalid",
    "C13-R3B": "lru_cache(color_input, bg_rgb): int 0/1 tuple parsed first (even indirectly via #010100), then the equal float tuple as background is served as near-black",
    "C14-R3A": "int(hex_str, 16) accepts a sign: '#-12345' valid with a negative channel; make_readable / bulk then raise",
    "C14-R3B": "bulk reuses the previous answer when item == previous item: adjacent entries equal under == but of different validity ((300,1.0,1.0) vs (300,1,1))",
    "C15-R3A": "memo keyed on (str(color), str(background)): tuple (0.6,0.6,0.6) and the string '(0.6, 0.6, 0.6)' mean different colours",
    "C15-R3B": "lazily filled linearisation table, not thread-safe: first luminance-using calls in a fresh interpreter issued by several threads at once",
    "C16-R3A": "mode 2 returns its one-shot relaxed search first when within dE 2.0: near-black text on mid greys where 7:1 is unreachable (mode 1 stops earlier)",
    "C16-R3B": "per-object memo keyed on (mode, very_readable) only: make_readable, then pair.large = True, then mode 1 (stale) vs mode 2 (fresh)",
    "C17-R3A": "len(list(pairs)) pre-pass with save_report=True: one-shot iterables return [] and write no report",
    "C17-R3B": "sys.stdout.encoding read in the preview: show=True raises when sys.stdout is None or a write/flush-only object",
    "C18-R3A": "variable table cleared only after a successful write: a stylesheet whose output path is blocked leaks its custom properties into the next file",
    "C18-R3B": "with_name(stem+'_cm').with_suffix(suffix): dotted stems write theme.css, overwrite siblings and compound",
    "C19-R3A": "escape-only-if-needed regex without DOTALL: multi-line values whose first line is clean reach the CLI report raw",
    "C19-R3B": "'&amp;' turned back into '&' unless followed by '#' or 'name;': legacy entity names without semicolon (&copy, &lt, &sect) are decoded by parsers",
}
FIRST_MISSED3 = {
    "C01-R3A": "alias cases (int / float / bool 0-1 tuples as text and background, back to back) in every pair workload",
    "C01-R3B": "C01 'flags' shard: verdicts judged under show / save_report (C17 caught it as it was)",
    "C02-R3A": "alias cases in every pair workload",
    "C02-R3B": "leading-dot alphas ('.5', '.8') among the translucent spellings",
    "C03-R3B": "bulk route: witness pair as an entry after its twin at the other text size",
    "C04-R3A": "search routines called back to back with the same list object overwritten in place",
    "C04-R3B": "CLI strict shard: cm-colors --mode 0 on generated sheets, every card's dE judged (nested and top level)",
    "C05-R3A": "bulk lists mixing 2- and 3-element entries, each entry labelled at its own size",
    "C05-R3B": "ratio called back to back with the same list objects overwritten in place",
    "C06-R3A": "namedtuple / tuple-subclass / list-subclass spellings",
    "C06-R3B": "a shard of the format workload runs with warnings escalated to errors",
    "C07-R3A": "whitespace look-alikes parsed back to back ('10 20 30' / '102030', '1 2 3' / '123')",
    "C09-R3A": "single-file argument that is a symbolic link to a stylesheet kept elsewhere",
    "C09-R3B": "comments inside colour values in generated sheets; comments inside a changed value must be preserved (this also exposed a genuine defect, repaired in eb7d0fa)",
    "C12-R3A": "alias entries (int / float / bool 0-1 tuples) next to each other in one list",
    "C12-R3B": "the same entries as a one-shot generator / zip, with and without save_report",
    "C13-R3B": "alias backgrounds: the equal twin parsed first (also indirectly through a hex colour being fixed)",
    "C14-R3A": "'#' followed by signs, blanks, underscores, prefixes",
    "C14-R3B": "equal-comparing retyped twins adjacent in one bulk list, both orders",
    "C15-R3A": "probes whose tuple has a str() that is itself a legal colour string; those strings issued in the history",
    "C15-R3B": "fresh interpreters whose first library calls come from 16 threads at once, with yield injection",
    "C16-R3A": "'saturating' pair class: the fix has to go almost to black / white",
    "C16-R3B": "half of the pair cases reuse one ColorPair object and switch its large attribute between calls",
    "C17-R3A": "bulk save_report with a zip() input",
    "C17-R3B": "flag calls under a write/flush-only stdout and under sys.stdout = None",
    "C18-R3A": "fault kind 'blocked-output' (valid sheet defining the shared properties whose output path is a directory) + direct colours on backgrounds only another file defines",
}


# round 4: each agent saw all 19 property statements and chose which to break (hard mode)
ROUND4 = {
    ("X1", "A"): ("C01", "relaxed-mode decision flattened: when the 15-step chain stalls but the one-shot search succeeds, the stalled failing colour is returned with True (light saturated text on a mid-tone background, mode 2; ~1 in 9,000 random pairs)", "pair class 'vivid_unfavoured' (vivid text on the side the lightness search does not favour)"),
    ("X1", "B"): ("C18", "per-file tables cleared only after a successful write: a file failing after analysis (error node, unwritable output) leaks its custom properties to the next file", None),
    ("X1", "C"): ("C13", "number regex rewritten for exponents loses the leading-dot form: rgba(0,0,0,.5) read as 5%", None),
    ("X2", "A"): ("C09", "output path built with str.replace('.css', '_cm.css') on the whole path: a second '.css' in a directory or file name", "file and directory names containing '.css' before the final extension"),
    ("X2", "B"): ("C18", "output filter name.rstrip('.css').endswith('_cm'): stems ending in _cm followed by c/s (admin_cms.css) are skipped in directory runs", "stems such as x_cms.css / x_cmss.css in trees"),
    ("X2", "C"): ("C13", "number regex without leading-dot decimals (also C07)", None),
    ("X3", "A"): ("C12", "per-call memo keyed on (str(text), str(bg), large): a tuple colour and the informal string that prints the same characters", "str() alias entries next to each other in bulk lists"),
    ("X3", "B"): ("C13", "background's original instead of its parsed rgb passed to the parser: hsla text over a 3-element float / numeric-string background", None),
    ("X3", "C"): ("C09", "name.replace(suffix, '_cm' + suffix): names containing '.css' before the final extension (normalize.css.v8.css)", "such names as explicit targets and in directory runs"),
    ("X4", "A"): ("C17", "warnings.warn on the 'alpha > 1 means percent' branch", None),
    ("X4", "B"): ("C18", "case-insensitive *.css discovery with a case-sensitive _cm.css filter: PRINT.CSS compounds on repeated runs", "a PRINT.CSS bystander in every tree; the second run must create nothing"),
    ("X4", "C"): ("C08", "first declaration wins (next()) for color / background-color", None),
    ("X5", "A"): ("C18", "--default-bg 'var(--page-bg, white)' resolved once by rebinding the option: later files are judged against the first file's page background", "per-file --page-bg definitions and runs with a var() default background"),
    ("X5", "B"): ("C09", "two cooperating edits: explicit files accepted case-insensitively, output name via re.sub(r'\\.css$'): THEME.CSS is overwritten in place", "explicit targets with non-lower-case extensions (and, as it happened, through a symlink)"),
    ("X5", "C"): ("C08", "custom properties keyed by lower_name while look-ups use the written name: names containing upper-case letters", "mixed-case custom-property names"),
    ("X6", "A"): ("C15", "one-entry Lab memo that stores its key before its value: two threads inside the optimiser at once", None),
    ("X6", "B"): ("C02", "'return binary_result or gradient_result': the unchecked lightness candidate (lower contrast than the input) is returned when only the chroma descent reached the target; gamut-surface text just below the minimum; 0 in 19,200 random calls", "pair class 'gamut_surface' and a dedicated C02 shard (1,600 such pairs x 3 configurations)"),
    ("X6", "C"): ("C17", "logger.warning on the hsla 'alpha > 1' branch: last-resort handler prints to stderr", None),
    ("X7", "A"): ("C13", "background passed to the parser only for rgba/hsla/rgba_tuple formats: alpha-carrying rgb() and informal spellings composited over white", None),
    ("X7", "B"): ("C06", "format detection by a case-sensitive regex: HSL(...) / RGBA(...) come back as rgb()", None),
    ("X7", "C"): ("C17", "warnings.warn in hsla_to_rgb for percentage / >1 alphas", None),
    ("X8", "A"): ("C08", "custom-property names lower-cased on definition and look-up: case twins (--text / --Text) collapse", "case-twin definitions with different values"),
    ("X8", "B"): ("C07", "number regex without the leading-dot form", None),
    ("X8", "C"): ("C16", "relaxed mode drops the initial default-mode shortcut (8% of mode-1 successes differ by 1-5 units)", None),
}


ROUND5 = {
    ("Y1", "A"): ("C15", "relaxed mode raises a module-level step limit around its retry and restores it in finally: a mode-1 chain started by another thread in that window gets 15 steps", "thread pool holds unrepairable pairs asked in mode 2 and pairs needing many mode-1 steps"),
    ("Y1", "B"): ("C18", "variable table cleared only after a successful write: a file failing at the write stage leaks custom properties into the next file", None),
    ("Y1", "C"): ("C17", "invalid escape sequence in a docstring of the lazily imported optimiser module: SyntaxWarning on stderr at the first make_readable of a process without cached bytecode", "fresh-interpreter default-path windows (no cached bytecode, stdout/stderr/cwd must stay empty)"),
    ("Y2", "A"): ("C07", "number regex needs a digit before the dot", None),
    ("Y2", "B"): ("C10", "safe_cube written as x ** 3: OverflowError for chroma >= ~6e102", "finite triples far outside the gamut (chroma up to 1e308, hue up to +-1e6)"),
    ("Y2", "C"): ("C04", "'delta_e_sequence or DEFAULT': an empty schedule runs the default search", None),
    ("Y3", "A"): ("C08", "declaration scan breaks as soon as both color and background-color were seen: later repeated declarations ignored", None),
    ("Y3", "B"): ("C09", "declaration map keyed by selector text: two top-level :root blocks overwrite each other", None),
    ("Y3", "C"): ("C18", ":root blocks re-serialised only when something was tuned earlier in the run: a ';' appears in a quiet file depending on other files", "a 'quiet' minified sheet (nothing to adjust, no final ';') in every tree"),
    ("Y4", "A"): ("C19", "html.escape(html.unescape(x)): character references / legacy entity names in user text are decoded", None),
    ("Y4", "B"): ("C17", "sum(1 for _ in pairs) pre-pass with save_report: one-shot iterables return []", None),
    ("Y4", "C"): ("C08", "report cards grouped in a dict keyed (file, selector): two adjusted rules with the same selector keep one card", "exact repetitions of a rule (same selector, same declarations) at top level / inside at-rules; cards per selector must equal the rules"),
    ("Y5", "A"): ("C12", "per-call cache keyed on str() of the arguments", None),
    ("Y5", "B"): ("C17", "logger.warning on the 'alpha > 1' branch (last-resort handler prints to stderr)", None),
    ("Y5", "C"): ("C13", "background's original instead of its rgb passed to the parser: hsla text over fractional-float / numeric-string backgrounds", None),
    ("Y6", "A"): ("C17", "warnings.warn when translucent text meets an unparseable background", "translucent text over unparseable backgrounds in the default-path windows"),
    ("Y6", "B"): ("C14", "keyword membership tested on a normalised name, looked up un-normalised: 'light blue' raises KeyError", None),
    ("Y6", "C"): ("C12", "per-call cache keyed on str() of the arguments (save_report=False only)", None),
    ("Y7", "A"): ("C01", "relaxed decision collapsed to 'smaller dE': when only the one-shot search succeeds the stalled failing colour is returned with True", None),
    ("Y7", "B"): ("C02", "tie rule on ratios rounded to 2 decimals: a descent candidate a hair below the original is adopted (almost-pure lime / yellow text)", None),
    ("Y7", "C"): ("C17", "logger.warning on the early return where only the chroma descent reached the target (near-corner text, very_readable)", "gamut-surface default-path windows under very_readable"),
    ("Y8", "A"): ("C09", "output opened with os.open without O_TRUNC: a longer pre-existing _cm.css leaves a stale tail", None),
    ("Y8", "B"): ("C18", "inode de-duplication in discovery: hard links / symlinks skipped, dangling symlink aborts the run", None),
    ("Y8", "C"): ("C08", "per-run cache of identical stylesheet texts: copies are written but neither counted nor reported", "a byte-identical copy of one sheet in every second directory run"),
}


ROUND6 = {
    ("C01", "A"): ("luminance taken from rgb_to_xyz()[1] (7-digit matrix row): ratios of chromatic colours off by <= 1e-3; needs a chromatic pair within ~1e-3 of a threshold", None),
    ("C01", "B"): ("show/save_report branch recomputes success from the AA badge: very_readable calls with a preview report True at AA-only results", None),
    ("C02", "A"): ("background's original (not its rgb) passed as compositing context: hsla text over fractional-float / HSL-style / numeric-string tuple backgrounds", "background spellings widened to every tuple form the reader accepts (fractions, 0-255 floats, numeric strings, percentages, (h, s, l))"),
    ("C02", "B"): ("background context attached only for detected formats rgba/hsla/rgba_tuple: 'rgb(r g b / a)', 'rgb(r, g, b, a)' and 'r, g, b, a' composited over white", "alpha-carrying rgb()/informal spellings added to the translucent kinds of every pair workload"),
    ("C03", "A"): ("shared strict step list extended in place by mode 2's last-resort branch: later mode-1/2 calls overshoot to dE ~11", None),
    ("C03", "B"): ("text's background context attached after its eager parse: translucent text on a non-white background composited over white", "spelled route: each witness pair is also presented in another accepted spelling, translucent ones written so that the displayed text is the witness pair's"),
    ("C04", "A"): ("'tolerance or 2.0' default: a tolerance of exactly 0 becomes 2.0", None),
    ("C04", "B"): ("--mode not passed down into nested at-rules: strict mode inside @media/@supports runs mode 1", None),
    ("C05", "A"): ("compositing context only for detected rgba/hsla/rgba_tuple: is_readable of alpha-carrying rgb()/informal spellings labels another pair", "pair-label check repeated with the pair in every accepted spelling, translucent spellings whose displayed colour is the pair's text"),
    ("C05", "B"): ("'text, bg, *large = item': an explicit False flag becomes the truthy list [False]", None),
    ("C06", "A"): ("format detection by exact type: namedtuple / tuple / list / str subclasses come back as hex", None),
    ("C06", "B"): ("save_report branch converts the tuple result to an rgb() string in place and returns it", "format mapping also exercised with show / save_report"),
    ("C07", "A"): ("hue read by a prefix-matching number regex: wrapped hues below 1e-4 print in exponent form and lose their exponent", None),
    ("C07", "B"): ("bare-hex regex matched against the original-case string: 'FFF' / 'AbCdEf' rejected", None),
    ("C08", "A"): ("error handler unlinks a stale output_path: an unprocessable entry visited after a good file deletes that file's output, which stays reported", "directory runs with unprocessable entries (non-UTF-8 bytes, a directory named *.css) beside and below the good sheets"),
    ("C08", "B"): ("nested blocks re-serialised only when the direct child call reported a change: changes two at-rule levels down are reported but not written", None),
    ("C09", "A"): ("input decoded with errors='replace': a legacy-encoding sheet gets an output with U+FFFD in comments and strings", "a stylesheet declaring @charset \"ISO-8859-1\" with Latin-1 bytes in comments and strings in directory runs (skipped, or carried through intact)"),
    ("C09", "B"): ("directory walk resolves symlinks before the output location is chosen: output written beside the link target", "directory runs with an entry that is a symbolic link to a sheet outside (or elsewhere inside) the directory given"),
    ("C10", "A"): ("oklch_to_rgb builds its result in a module-level list: concurrent calls from several threads mix channels", "round trips driven from 8 threads at once (switch interval 1 us) against single-threaded reference values"),
    ("C10", "B"): ("clamp helper min(max(v, lo), hi): NaN passes through the safe fallbacks", None),
    ("C11", "A"): ("inlined Lab transform tests y > eps for fx: a* wrong for dark saturated colours (X and Y on opposite sides of eps)", None),
    ("C11", "B"): ("rgb_to_xyz guesses the scale from max(rgb) > 1: the seven 0/1-channel colours read as full-strength", None),
    ("C12", "A"): ("bulk save_report block overwrites the tuple result with its rgb() string", None),
    ("C12", "B"): ("already-readable fast path returns the caller's raw tuple (fractions, floats, string components)", None),
    ("C13", "A"): ("RGBA tuple re-formatted into an rgba() string: float alphas below 1e-4 print in exponent notation and lose the exponent", "alphas next to 0 (1e-5 .. 1e-7) in every translucent spelling"),
    ("C13", "B"): ("background's original passed to the parser: hsla text over non-integer 3-tuple backgrounds blended over the raw numbers", "every tuple form of background in the translucent workload"),
    ("C14", "A"): ("input spliced into a str.format template on the component-error path: '{}' / '{name}' raise IndexError / KeyError", "template metacharacters ({}, {0}, {name}, %s, %(x)s, $x, \\1) in near-miss and special strings"),
    ("C14", "B"): ("repr() of the input inside the except handler: ints beyond the interpreter's decimal-conversion limit raise ValueError there", "not claimed: ints beyond the 4300-digit limit are outside the quantifier ('ints of moderate magnitude'); generating them made a neutral variant alarm, so they were withdrawn"),
    ("C15", "A"): ("shared step-list prefix extended in place by mode 2's option B: every later call of the process uses steps up to 15", None),
    ("C15", "B"): ("bulk keyword 'large' shadows the loop variable: a 3-tuple's flag leaks into later 2-tuples", None),
    ("C16", "A"): ("relaxed mode loses the initial default-mode shortcut: option B overrides mode-1 colours by one unit under very_readable", None),
    ("C16", "B"): ("15 instead of 10 walk steps for AAA requests only: ordinary request fails where very_readable succeeds", None),
    ("C17", "A"): ("bulk report helper formats the caller's raw tuples: HSL / string-component tuples make save_report raise", None),
    ("C17", "B"): ("preview reads sys.stdout.encoding: AttributeError under stdout None / write-only stdout objects", None),
    ("C18", "A"): ("discovery drops paths whose real file was already seen: a symlinked twin gets no output in directory runs", "trees with the same stylesheet reachable under a second path (symbolic link)"),
    ("C18", "B"): ("output write moved out of the try: an unwritable output aborts the whole directory run", None),
    ("C19", "A"): ("cards inserted with re.sub: backslash sequences in user text are processed after escaping", None),
    ("C19", "B"): ("report opened without O_TRUNC: a shorter report keeps the tail of the previous one", None),
}


ROUND7 = {
    ("C01", "A"): ("relaxed mode: last walk step never evaluated + all-failed branch returns option A's colour: a passing colour comes back with False (mode 2, fix reached in exactly the 15th step)", None),
    ("C01", "B"): ("text equal to background: black/white fallback flagged by the AA badge only (very_readable on mid-tone backgrounds)", None),
    ("C02", "A"): ("tie clause with math.isclose(rel_tol=1e-3): a descent result a hair below the original replaces 'no candidate' (near-corner vivid text)", None),
    ("C02", "B"): ("successful fix stored back into pair.text._rgb: a later call on the same object starts from the tuned colour", None),
    ("C03", "A"): ("Lab toe written (7.787 t + 16) / 116: CIEDE2000 between dark colours under-reported, search walks to black", None),
    ("C03", "B"): ("'continue' when the descent returns None also skips the good-enough exit: texts with a channel in the sRGB toe are pushed 3-5 dE", "fixed-text draws: the text (a channel in 0..18, near-black / dark red-brown, or a CSS keyword colour) is kept and the background is steered"),
    ("C04", "A"): ("unchecked +-1 neighbour step at the end of the lightness search: results 0.03-0.5 dE beyond the tolerance", None),
    ("C04", "B"): ("bulk API forwards 'mode or 1': strict mode (0) silently runs mode 1", "strict mode also asked through make_readable_bulk (positional and keyword mode=0)"),
    ("C05", "A"): ("is_readable judged on the ratio rounded to 2 decimals", None),
    ("C05", "B"): ("bulk status literal 'not readable' whenever the tuner reports failure (AAA asked, AA reached)", None),
    ("C06", "A"): ("format_color as a lookup table without an 'rgba_tuple' entry (KeyError swallowed): RGBA tuples come back as rgb() / tuple", None),
    ("C06", "B"): ("detect_color_format strips only the left side: 'grey ' / '777 ' detected as informal rgb", "spellings with trailing (and leading) blanks: keyword, hex with and without '#', rgb(), hsl()"),
    ("C07", "A"): ("Color._parse copies the background's rgb when text and background inputs compare equal: identical translucent text and background", "Color(s, background_context=Color(s)) for translucent s; C13: ColorPair(s, s)"),
    ("C07", "B"): ("hsl()/hsla() argument list taken with re.fullmatch and '.': values containing a line feed rejected", None),
    ("C08", "A"): ("adjusted :root/html rule popped from the declaration map: a later var() user's change is reported but not written", None),
    ("C08", "B"): ("glob.glob instead of rglob: stylesheets in dot-directories or with dot-prefixed names skipped", "dot-prefixed file and directory names in the directory workloads of C08, C09 and C18"),
    ("C09", "A"): ("'\\n'.join(read().splitlines()): U+0085, U+2028/9, U+001C-E, U+000B inside comments, strings and identifiers turned into line feeds", "those code points in comments, strings and selectors of the carry-through material"),
    ("C09", "B"): ("read errors handled without 'continue': an undecodable entry gets an output holding the previous sheet's rules", None),
    ("C10", "A"): ("x ** 3 instead of the sign-split product: OverflowError for chroma >= 1e103", None),
    ("C10", "B"): ("is_valid_oklch rejects C > 0.5: safe variant returns grey where the plain one returns a colour", None),
    ("C11", "A"): ("operands ordered with '<': a tuple compared with a list raises TypeError", "not claimed: needs a list (or other non-tuple carrier) for one colour; the routines are declared for Tuple[int, int, int] and a memo keyed on the tuple would be as legitimate"),
    ("C11", "B"): ("256-entry linearisation table indexed by channel: float-typed channels raise TypeError", "not claimed: needs float-typed channel values; the statement is about 8-bit colours"),
    ("C12", "A"): ("size flag reset at the end of the loop body: skipped by 'continue' after an unparsable large-text entry", None),
    ("C12", "B"): ("Color keeps the stripped string + invalid branch returns pair.text.original: padded unparsable text comes back stripped", None),
    ("C13", "A"): ("percentage alphas <= 1% taken as fractions", "alphas written as percentages (rgba(r, g, b, a%), rgb(r g b / a%), (r, g, b, 'a%')) with the whole alpha set"),
    ("C13", "B"): ("RGBA int tuples whose channels are all 0 or 1 taken for HSLA", "RGBA tuples / lists / strings with every channel 0 or 1"),
    ("C14", "A"): ("named-colour membership tested after removing all whitespace, looked up after removing spaces only: 'dark\\tred' raises KeyError", None),
    ("C14", "B"): ("hsla alpha branches 'a <= 1' / 'a > 1': NaN binds nothing, UnboundLocalError", None),
    ("C15", "A"): ("threading.local scratch initialised at import: in every other thread the descent phase silently returns None", "thread pools hold pairs whose result is decided by the chroma descent (selected by switching that phase off); surface pairs among history probes"),
    ("C15", "B"): ("'large' as a descriptor storing its value on the class: all ColorPair objects share one flag", None),
    ("C16", "A"): ("relaxed mode gives up when the end of the lightness direction cannot reach the floor, although the default mode repairs such pairs through the descent", "against-direction pairs: 2,000 candidates per quick run, about 40 of which the default mode repairs"),
    ("C16", "B"): ("relaxed mode accepts the default-mode result only within dE 15", None),
    ("C17", "A"): ("report path made absolute at import time: after os.chdir the report lands in the import-time directory", None),
    ("C17", "B"): ("report written with Path.write_text() in the locale's encoding: UnicodeEncodeError when the default text encoding is not UTF-8", "save_report in a fresh interpreter under LC_ALL=C with UTF-8 mode and locale coercion off"),
    ("C18", "A"): ("--default-bg var() reference re-bound to the first file's resolution", None),
    ("C18", "B"): ("output write moved behind the per-file try: an unwritable output aborts the run", None),
    ("C19", "A"): ("rejected bulk entries get a report card whose badge slot carries the raw error text", "bulk save_report lists in which rejected entries carry the hostile text"),
    ("C19", "B"): ("escape only when a regex without DOTALL finds a special character on the first line", None),
}


ROUND8 = {
    ("Z1", "A"): ("C14", "hsla with alpha exactly 0 and no background returns the (missing) background: Color invalid with error None", None),
    ("Z1", "B"): ("C07", "bare-hex regex written for lower case matched against the original string: 'FFF' rejected", None),
    ("Z1", "C"): ("C13", "opaque RGBA tuples delegated to the 3-tuple reader: float channels <= 1 read as fractions when alpha is exactly 1", "RGBA tuples mixing int and float channels (0.0 / 1.0 / 255.0) at alpha 1, 1.0, 0.999 ..."),
    ("Z2", "A"): ("C01", "relaxed decision ladder rewritten: option B's colour returned without setting success", None),
    ("Z2", "B"): ("C02", "tie-break on contrasts rounded to 2 decimals", None),
    ("Z2", "C"): ("C04", "schedule[-1] hoisted in front of the loop: IndexError for an empty schedule", None),
    ("Z3", "A"): ("C18", "--default-bg var() reference re-bound per file", None),
    ("Z3", "B"): ("C09", "'_cm' suffix not appended when the stem already ends in _cm: single-file run overwrites its input", None),
    ("Z3", "C"): ("C08", "ASCII-only regex for the name in var(): properties with non-ASCII names are tuned and reported but never rewritten", "custom property names with letters beyond ASCII, leading underscore / hyphen, digits"),
    ("Z4", "A"): ("C09", "existing output read as UTF-8 to skip up-to-date files: a stale output in a legacy encoding makes the file fail", "stale pre-existing outputs, every other one not valid UTF-8"),
    ("Z4", "B"): ("C18", "--default-bg var() reference re-bound per file", None),
    ("Z4", "C"): ("C19", "scanned folder's name shown unescaped in the report header", None),
    ("Z5", "A"): ("C13", "text composited over the background as written, not as parsed", None),
    ("Z5", "B"): ("C12", "new large_text parameter inserted before very_readable: positional callers shifted", "bulk calls with mode / very_readable / save_report passed by position"),
    ("Z5", "C"): ("C17", "bulk report formats the raw tuple input: string-component / HSL tuples raise", None),
    ("Z6", "A"): ("C19", "NFKC normalisation after escaping: full-width < > & \" become live markup", None),
    ("Z6", "B"): ("C08", "listed selector cut to 60 characters", "selector lists well over 60 characters sharing a long common beginning"),
    ("Z6", "C"): ("C17", "report cards de-duplicated through a set of (text, bg, large): list colours unhashable", None),
    ("Z7", "A"): ("C07", "six-sector HSL with int(h / 60) indexing: a hue a hair below a multiple of 360 wraps to exactly 360.0 -> IndexError", "hues missing a multiple of 360 by 1e-14 .. 1e-22, written in plain decimals"),
    ("Z7", "B"): ("C05", "level thresholds looked up in {False: ..., True: ...}.get(large): truthy non-bool flags ('yes', 24) get normal-text thresholds", "not claimed: the flag is documented as a bool; True/False/1/0 behave as before"),
    ("Z7", "C"): ("C14", "hex digits accepted by str.isdigit(), values from a dict: non-ASCII digits raise KeyError", None),
    ("Z8", "A"): ("C18", "--default-bg var() reference re-bound per file", None),
    ("Z8", "B"): ("C08", "'changed' flag assigned (not OR-ed) from nested at-rules: a later sibling at-rule with nothing to fix resets it", "at-rule blocks also hold siblings without a text colour (plain rules, comments, further at-rules) before and after the rule"),
    ("Z8", "C"): ("C15", "parser's white default made a module constant that a CLI run sets from --default-bg and never restores", None),
}


def archive(key, pid, src, v, needs, missed):
    if not os.path.exists(os.path.join(src, v + ".diff")):
        print(key, "missing deliverables")
        return
    dst = os.path.join(HERE, "seeded", key)
    os.makedirs(dst, exist_ok=True)
    shutil.copy(os.path.join(src, v + ".diff"), os.path.join(dst, "patch.diff"))
    shutil.copy(os.path.join(src, f"demo_{v}.py"), os.path.join(dst, "demo.py"))
    if os.path.exists(os.path.join(src, "NOTES.md")):
        shutil.copy(os.path.join(src, "NOTES.md"), os.path.join(dst, "NOTES.md"))
    p = subprocess.run([os.path.join(HERE, "tools", "seedcheck.sh"), pid, os.path.join(dst, "patch.diff"), os.path.join(dst, "demo.py")],
                       stdout=subprocess.PIPE, stderr=subprocess.STDOUT, text=True, errors="replace")
    out = p.stdout
    if os.path.exists(os.path.join(dst, "patch.diff.rebased")):
        os.replace(os.path.join(dst, "patch.diff.rebased"), os.path.join(dst, "patch.diff"))
    tests = re.search(r"tests\(with change\): (.*)", out)
    demo = re.search(r"demo clean rc=(\d+).*; with change rc=(\d+)", out)
    chk = re.search(r"check (C\d+) (\w+) on changed tree: rc=(\d+) :: (.*)", out)
    meta = {
        "id": key, "breaks_property": pid, "needs_to_manifest": needs,
        "source": "independent sub-agent given only the property text and a scratch worktree",
        "confirmed": {
            "command": f"tools/seedcheck.sh {pid} seeded/{key}/patch.diff seeded/{key}/demo.py  (scratch worktree of /repo HEAD under /tmp/sv, removed afterwards)",
            "repo_head": subprocess.run(["git", "-C", "/repo", "rev-parse", "--short", "HEAD"], stdout=subprocess.PIPE, text=True).stdout.strip(),
            "tests_with_change": tests.group(1) if tests else None,
            "demo_rc_clean": int(demo.group(1)) if demo else None, "demo_rc_with_change": int(demo.group(2)) if demo else None,
            "check": chk.group(1) if chk else None, "tier": chk.group(2) if chk else None, "check_rc_on_changed_tree": int(chk.group(3)) if chk else None,
            "first_violation_line": (chk.group(4)[:300] if chk else None),
        },
        "caught": bool(chk and chk.group(3) == "1"),
        "initially_missed": missed is not None, "strengthening": missed,
    }
    json.dump(meta, open(os.path.join(dst, "meta.json"), "w"), indent=1)
    print(key, "tests:", meta["confirmed"]["tests_with_change"], "demo:", meta["confirmed"]["demo_rc_clean"], meta["confirmed"]["demo_rc_with_change"],
          "check rc:", meta["confirmed"]["check_rc_on_changed_tree"], flush=True)


def main():
    want = sys.argv[1:]
    if want and want[0] == "round8":
        for (x, v), (pid, needs, missed) in sorted(ROUND8.items()):
            archive(f"{pid}-R8{x}{v}", pid, os.path.join("/tmp/seed8", x + ".out"), v, needs, missed)
        return
    if want and want[0] == "round7":
        for (pid, v), (needs, missed) in sorted(ROUND7.items()):
            if len(want) > 1 and f"{pid}{v}" not in want[1:]:
                continue
            archive(f"{pid}-R7{v}", pid, os.path.join("/tmp/seed7", pid + ".out"), v, needs, missed)
        return
    if want and want[0] == "round6":
        for (pid, v), (needs, missed) in sorted(ROUND6.items()):
            if len(want) > 1 and f"{pid}{v}" not in want[1:]:
                continue
            archive(f"{pid}-R6{v}", pid, os.path.join("/tmp/seed6", pid + ".out"), v, needs, missed)
        return
    if want and want[0] == "round5":
        for (x, v), (pid, needs, missed) in sorted(ROUND5.items()):
            archive(f"{pid}-R5{x}{v}", pid, os.path.join("/tmp/seed5", x + ".out"), v, needs, missed)
        return
    if want and want[0] == "round4":
        for (x, v), (pid, needs, missed) in sorted(ROUND4.items()):
            archive(f"{pid}-R4{x}{v}", pid, os.path.join("/tmp/seed4", x + ".out"), v, needs, missed)
        return
    if want and want[0] == "round3":
        for key in sorted(NEEDS3):
            if len(want) > 1 and key not in want[1:]:
                continue
            pid, v = key.split("-R3")
            archive(key, pid, os.path.join("/tmp/seed3", pid + ".out"), v, NEEDS3[key], FIRST_MISSED3.get(key))
        return
    if want and want[0] == "regress":
        # re-confirm every archived change against the current checks (after workloads were widened)
        for key in sorted(os.listdir(os.path.join(HERE, "seeded"))):
            if len(want) > 1 and key not in want[1:]:
                continue
            d = os.path.join(HERE, "seeded", key)
            mp = os.path.join(d, "meta.json")
            if not os.path.exists(mp):
                continue
            meta = json.load(open(mp))
            pid = meta["breaks_property"]
            p = subprocess.run([os.path.join(HERE, "tools", "seedcheck.sh"), pid, os.path.join(d, "patch.diff"), os.path.join(d, "demo.py")],
                               stdout=subprocess.PIPE, stderr=subprocess.STDOUT, text=True, errors="replace")
            if os.path.exists(os.path.join(d, "patch.diff.rebased")):
                os.replace(os.path.join(d, "patch.diff.rebased"), os.path.join(d, "patch.diff"))
            chk = re.search(r"check (C\d+) (\w+) on changed tree: rc=(\d+) :: (.*)", p.stdout)
            tests = re.search(r"tests\(with change\): (.*)", p.stdout)
            meta["reconfirmed"] = {"repo_head": subprocess.run(["git", "-C", "/repo", "rev-parse", "--short", "HEAD"], stdout=subprocess.PIPE, text=True).stdout.strip(),
                                   "tests_with_change": tests.group(1) if tests else None,
                                   "check_rc_on_changed_tree": int(chk.group(3)) if chk else None, "first_violation_line": chk.group(4)[:300] if chk else None}
            meta["caught"] = bool(chk and chk.group(3) == "1")
            json.dump(meta, open(mp, "w"), indent=1)
            print(key, "tests:", meta["reconfirmed"]["tests_with_change"], "check rc:", meta["reconfirmed"]["check_rc_on_changed_tree"], flush=True)
        return
    if want and want[0] == "round2":
        for key in sorted(NEEDS2):
            if len(want) > 1 and key not in want[1:]:
                continue
            pid, v = key.split("-R2")
            archive(key, pid, os.path.join("/tmp/seed2", pid + ".out"), v, NEEDS2[key], FIRST_MISSED2.get(key))
        return
    for key in sorted(NEEDS):
        if want and key not in want:
            continue
        pid, v = key.split("-")
        src = os.path.join(SRC, pid + ".out")
        if not os.path.exists(os.path.join(src, v + ".diff")):
            print(key, "missing deliverables")
            continue
        dst = os.path.join(HERE, "seeded", key)
        os.makedirs(dst, exist_ok=True)
        shutil.copy(os.path.join(src, v + ".diff"), os.path.join(dst, "patch.diff"))
        shutil.copy(os.path.join(src, f"demo_{v}.py"), os.path.join(dst, "demo.py"))
        if os.path.exists(os.path.join(src, "NOTES.md")):
            shutil.copy(os.path.join(src, "NOTES.md"), os.path.join(dst, "NOTES.md"))
        p = subprocess.run([os.path.join(HERE, "tools", "seedcheck.sh"), pid, os.path.join(dst, "patch.diff"), os.path.join(dst, "demo.py")],
                           stdout=subprocess.PIPE, stderr=subprocess.STDOUT, text=True, errors="replace")
        out = p.stdout
        tests = re.search(r"tests\(with change\): (.*)", out)
        demo = re.search(r"demo clean rc=(\d+).*; with change rc=(\d+)", out)
        chk = re.search(r"check (C\d+) (\w+) on changed tree: rc=(\d+) :: (.*)", out)
        meta = {
            "id": key, "breaks_property": pid, "needs_to_manifest": NEEDS[key],
            "source": "independent sub-agent given only the property text and a scratch worktree",
            "confirmed": {
                "command": f"tools/seedcheck.sh {pid} seeded/{key}/patch.diff seeded/{key}/demo.py  (scratch worktree of /repo HEAD under /tmp/sv, removed afterwards)",
                "repo_head": subprocess.run(["git", "-C", "/repo", "rev-parse", "--short", "HEAD"], stdout=subprocess.PIPE, text=True).stdout.strip(),
                "tests_with_change": tests.group(1) if tests else None,
                "demo_rc_clean": int(demo.group(1)) if demo else None, "demo_rc_with_change": int(demo.group(2)) if demo else None,
                "check": chk.group(1) if chk else None, "tier": chk.group(2) if chk else None, "check_rc_on_changed_tree": int(chk.group(3)) if chk else None,
                "first_violation_line": (chk.group(4)[:300] if chk else None),
            },
            "caught": bool(chk and chk.group(3) == "1"),
            "initially_missed": key in FIRST_MISSED, "strengthening": FIRST_MISSED.get(key),
        }
        json.dump(meta, open(os.path.join(dst, "meta.json"), "w"), indent=1)
        print(key, "tests:", meta["confirmed"]["tests_with_change"], "demo:", meta["confirmed"]["demo_rc_clean"], meta["confirmed"]["demo_rc_with_change"],
              "check rc:", meta["confirmed"]["check_rc_on_changed_tree"], flush=True)


if __name__ == "__main__":
    main()
