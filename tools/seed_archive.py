#!/usr/bin/env python3
"""Self-validation: archive sub-agent seeded changes under /verif/seeded/<id>-<variant>/
(patch.diff, demo.py, NOTES.md, meta.json) after re-confirming each one in a
scratch worktree with tools/seedcheck.sh.   tools/seed_archive.py [ID-V ...]"""
import json
import os
import re
import shutil
import subprocess
import sys

HERE = os.path.dirname(os.path.dirname(os.path.abspath(__file__)))
SRC = "/tmp/seed"

NEEDS = {
    "C01-A": "hsl() output rounded to whole degrees / one decimal: only hsl() text input, chromatic, fixed result within one rounding step of the threshold (~2% of hsl inputs)",
    "C01-B": "result memo keyed without min_contrast: same pair/size/mode fixed twice in one process with different very_readable",
    "C02-A": "best_contrast initialised to 0: unfixable pair with text on the side the lightness search does not favour (vivid text on mid/light bg), ~2% of unfixable pairs",
    "C02-B": "two cooperating edits: early 'already passes' exit uses the target under very_readable and the large/very_readable target raised to 7.0: only large_text + very_readable + mode 0 with original ratio in [4.5, 7.0)",
    "C03-A": "search direction by 'white out-contrasts black' instead of L<0.5: backgrounds with OKLCH L in [0.50, 0.565] and darker text just under the large-text minimum",
    "C03-B": "shared strict step list extended in place by the relaxed fallback: an earlier mode-2 call that reaches the fallback in the same process, then mode 1/2 with very_readable=False overshoots (dE 11)",
    "C04-A": "default schedule constant extended in place by the relaxed fallback: mode 2 on an unrepairable pair, then mode 0 / default-schedule call in the same interpreter exceeds dE 5",
    "C04-B": "hsl() output rounded to integers: hsl() text input, mode 0, result near the 5.0 budget lands at dE 5.1-5.9",
    "C05-A": "luminance memo with a colliding packed key (base 255): both members of a colliding pair evaluated in one process, e.g. (0,255,0) after (1,0,0)",
    "C05-B": "level computed from the ratio rounded to 2 decimals: pairs whose exact ratio lies in [2.995,3), [4.495,4.5), [6.995,7) (0.01-0.08% of pairs)",
    "C06-A": "saturation clamp removed in rgb_to_hsl: hsl() input and fully saturated result hitting the float overshoot (48,336 colours, 0.29%)",
    "C06-B": "int-triple fast path in Color._parse keeps a list: text given as a list of ints AND the pair already readable (no fix attempted)",
    "C07-A": "hue wrapped with math.fmod: negative hues congruent to (0,120) degrees such as -300, -660, -1075 (hsl strings and tuples)",
    "C07-B": "bare-hex regex matched against the un-lowercased string: hex without '#' containing an upper-case letter",
    "C08-A": "first declaration wins instead of last: rules declaring color or background-color more than once",
    "C08-B": "at-rule block rebuilt only if the last inner style rule changed: @media with an earlier adjusted rule and an unchanged last rule, or a fix nested two at-rules deep",
    "C09-A": "modified rule re-serialised from declarations only: adjusted literal-colour rule whose block holds a comment or nested at-rule",
    "C09-B": "no second _cm suffix: explicit file argument whose own name ends in _cm.css is overwritten in place",
    "C10-A": "achromatic cut-off on squared chroma with the wrong exponent: near-neutral non-grey colours (3,970 of 2^24)",
    "C10-B": "lru_cache on oklch_to_rgb keyed on rounded L,C,H: vivid colours with one nearly-off channel (0.08%) round-trip off by one",
    "C11-A": "mean hue 'on the short arc' loses the rotation term: hue gap > 180 with h1'+h2' < 360 (pink/red vs teal/cyan, ~2% of pairs, large dE only)",
    "C11-B": "Lab memo with colliding packed key (base 255): both members of a colliding pair converted in one process, e.g. (0,0,255) and (0,1,0)",
    "C12-A": "large flag not reset per entry: (text,bg,True) entry before a 2-element entry in one bulk call",
    "C12-B": "mode = mode or 1: mode=0 in the bulk path on pairs where strict and default differ",
    "C13-A": "parse cache keyed on the string alone: same translucent text string reused in one interpreter on a different background",
    "C13-B": "make_readable passes the original inputs to the fixer: translucent text on a non-white background is re-composited over white inside the fixer",
    "C14-A": "number tokens no longer str()-wrapped: 4-element RGBA-looking list/tuple with a None component after in-range components raises AttributeError",
    "C14-B": "hex pairs parsed with int(pair,16) without digit whitelist: '#ffff-1' is valid with rgb (255,255,-1)",
    "C15-A": "lru_cache on parse_color_to_rgb: (1,0,0) and (1.0,0.0,0.0) are hash-equal but denote different colours; whichever is parsed first wins for the process",
    "C15-B": "large=False initialised once before the loop: a 2-element bulk entry after a (..,True) entry",
    "C16-A": "relaxed mode drops the 'recursive succeeded => return it' shortcut: pairs mode 1 fixes only after several steps, mostly very_readable",
    "C16-B": "relaxed-strategy memo keyed without the contrast targets: same pair through mode 2 first as readable then as very_readable",
    "C17-A": "quick-report path made absolute at import time: chdir after import, then save_report=True writes outside the cwd",
    "C17-B": "warnings.warn on the 'alpha > 1 means percent' branch: RGBA alpha written as a bare number in (1,100] prints to stderr on plain calls",
    "C18-A": "custom-property table hoisted out of the per-file loop: a file using var(--x) it does not define while an earlier-visited file defines it",
    "C18-B": "output name split at the first dot: multi-dot names (normalize.min.css) escape the _cm.css filter and compound on a repeat run",
    "C19-A": "quote=False escaping for text-only fields that are also interpolated into style=: tuned pair whose text colour string contains a double quote",
    "C19-B": "'already escaped' shortcut: colour string containing a character reference plus markup is emitted raw in the save_report path",
}
FIRST_MISSED = {"C09-B": "file-name classes for explicit single-file targets added to C09", "C04-A": "in-process mode-1/2 history before strict calls and before default-schedule routine calls added to C04",
                "C15-A": "hash-equal int/float/bool tuple aliases added to C15 probes and histories", "C15-B": "2-element probe entry after large=True entries added to C15 bulk positions",
                "C17-B": "leniently accepted and invalid inputs added to C17's default-path windows", "C18-B": "multi-dot / spaced file names, documented-output-name and full-tree idempotence checks added to C18"}


def main():
    want = sys.argv[1:]
    for key in sorted(NEEDS):
        if want and key not in want:
            continue
        pid, v = key.split("-")
        src = os.path.join(SRC, pid + ".out")
        if not os.path.exists(os.path.join(src, v + ".diff")):
            print(key, "missing deliverables")
            continue
        dst = os.path.join(HERE, "seeded", key)
        os.makedirs(dst, exist_ok=True)
        shutil.copy(os.path.join(src, v + ".diff"), os.path.join(dst, "patch.diff"))
        shutil.copy(os.path.join(src, f"demo_{v}.py"), os.path.join(dst, "demo.py"))
        if os.path.exists(os.path.join(src, "NOTES.md")):
            shutil.copy(os.path.join(src, "NOTES.md"), os.path.join(dst, "NOTES.md"))
        p = subprocess.run([os.path.join(HERE, "tools", "seedcheck.sh"), pid, os.path.join(dst, "patch.diff"), os.path.join(dst, "demo.py")],
                           stdout=subprocess.PIPE, stderr=subprocess.STDOUT, text=True)
        out = p.stdout
        tests = re.search(r"tests\(with change\): (.*)", out)
        demo = re.search(r"demo clean rc=(\d+).*; with change rc=(\d+)", out)
        chk = re.search(r"check (C\d+) (\w+) on changed tree: rc=(\d+) :: (.*)", out)
        meta = {
            "id": key, "breaks_property": pid, "needs_to_manifest": NEEDS[key],
            "source": "independent sub-agent given only the property text and a scratch worktree",
            "confirmed": {
                "command": f"tools/seedcheck.sh {pid} seeded/{key}/patch.diff seeded/{key}/demo.py  (scratch worktree of /repo HEAD under /tmp/sv, removed afterwards)",
                "repo_head": subprocess.run(["git", "-C", "/repo", "rev-parse", "--short", "HEAD"], stdout=subprocess.PIPE, text=True).stdout.strip(),
                "tests_with_change": tests.group(1) if tests else None,
                "demo_rc_clean": int(demo.group(1)) if demo else None, "demo_rc_with_change": int(demo.group(2)) if demo else None,
                "check": chk.group(1) if chk else None, "tier": chk.group(2) if chk else None, "check_rc_on_changed_tree": int(chk.group(3)) if chk else None,
                "first_violation_line": (chk.group(4)[:300] if chk else None),
            },
            "caught": bool(chk and chk.group(3) == "1"),
            "initially_missed": key in FIRST_MISSED, "strengthening": FIRST_MISSED.get(key),
        }
        json.dump(meta, open(os.path.join(dst, "meta.json"), "w"), indent=1)
        print(key, "tests:", meta["confirmed"]["tests_with_change"], "demo:", meta["confirmed"]["demo_rc_clean"], meta["confirmed"]["demo_rc_with_change"],
              "check rc:", meta["confirmed"]["check_rc_on_changed_tree"], flush=True)


if __name__ == "__main__":
    main()
