#!/usr/bin/env python3
"""Regenerates /verif/MANIFEST.json from the table below (keeps it valid)."""
import json
import os

HERE = os.path.dirname(os.path.dirname(os.path.abspath(__file__)))

def C(technique, text, note, category="exploration"):
    return dict(technique=technique, text=text, note=note, category=category)


T_ORACLE = "Trusts the independent oracles in cmv/oracles (self-tested at the start of every run; a failing self-test makes the run INCONCLUSIVE). "
CHECKS = {
    "C01": C("runtime monitor: icontract postcondition on check_and_fix_contrast (fires on every internal call) + API-boundary oracle (CSS read-back, WCAG ratio) over stratified pair workload",
             "Every make_readable / bulk / check_and_fix_contrast execution of a stratified, threshold-hugging workload (12 configurations, all spellings, translucent text, 148x148 keyword lattice in thorough) is judged by an independent WCAG+CSS oracle. Also judged: verdicts under show/save_report, hash-equal int/float/bool tuple aliases, one ColorPair object reused across configurations. Held on N observed executions; the 2^48 pair space is sampled per class.",
             T_ORACLE + "Pair classes and counts per class are in the evidence."),
    "C02": C("runtime monitor: keep / never-lower relation judged by WCAG oracle at the API boundary over threshold-straddling workload",
             "Observed executions only: pairs one 8-bit step either side of each threshold, text=bg, mid-tone backgrounds on both sides; already-passing pairs must come back unchanged with success, all others must not lose contrast; the same translucent string over many backgrounds in one process; a composite outside C13's bound counts as a violation.",
             T_ORACLE + "Translucent originals use the library's composite, accepted only within C13's bound."),
    "C03": C("runtime monitor: independent exhaustive scan of the lightness line (own OKLCH, CIEDE2000, WCAG) decides the obligation; API result judged against it",
             "For each sampled pair an independent scan decides whether a barely-perceptible witness exists; on witness pairs success in modes 0/1/2 and dE<=2.0 are demanded. Stratified over background lightness x text side x settings. The obligation is also judged through the bulk API (entry after its twin at the other text size). One mechanism is a recorded known finding (search direction chosen from background only).",
             T_ORACLE + "A coarse scan can only miss obligations. Known finding classified from the input alone."),
    "C04": C("runtime monitor: API-level dE bound + direct calls of the search routines with arbitrary tolerances + recorded step chain (attribute replacement of the multi-phase search) checked against a trace invariant",
             "Strict-mode results, direct calls of the three search routines with schedules the library never uses, and every multi-phase step inside mode-1/2 runs are measured with an independent CIEDE2000; chain lengths are in the evidence. In-process mode-1/2 history precedes strict calls; routines are also called with caller-owned lists overwritten in place; cm-colors --mode 0 is run on generated sheets and every card's dE judged.",
             T_ORACLE + "0.05 slack = agreement C11 grants. Routine names are auxiliary: absent attribute => sub-check skipped and counted."),
    "C05": C("runtime monitor: exhaustive enumeration of all 2^24 luminances and all grey pairs under an exact-decimal WCAG oracle + contracts on luminance/ratio during optimiser runs + adjacent-float label checks",
             "Luminance is enumerated completely (exhaustive: true for that sub-space) in both tiers; ratio on all 65,536 grey pairs, every colour vs black/white (thorough: all), random and near-threshold pairs; labels on each threshold float and its 5 neighbours each way; bulk status after failed fixes and in mixed-shape lists; reused list arguments.",
             T_ORACLE + "Ratio over 2^48 pairs is sampled."),
    "C06": C("runtime monitor: exhaustive format_color x {hex,rgb,hsl,tuple} over 2^24 colours (thorough) with double read-back (library parser + CSS reference, tinycss2 third opinion) + API-level format mapping on passing and optimiser paths",
             "Thorough enumerates all 16,777,216 colours x 4 formats and 3.1M API calls; quick a 2^18 stratified subset. Each output must be the right kind and read back as exactly the colour under both parsers; tuple/list subclasses as inputs; one shard with warnings escalated to errors.",
             T_ORACLE + "Float fast path falls back to exact rationals near ties."),
    "C07": C("runtime monitor: differential against an exact-rational CSS Color 3 reader over exhaustive hex / keyword spaces and grammar-generated functional strings",
             "All #rrggbb (thorough) / 2^20 (quick), all #rgb x 3, 148 keywords x 6, 400k-1.6M generated rgb()/rgba()/hsl()/hsla() strings with whitespace/case/number-format variants and random backgrounds; equivalent spellings must parse identically; the same translucent string over a sequence of backgrounds; whitespace look-alikes back to back.",
             T_ORACLE + "Infinite functional families are sampled; only CSS Color 3 comma syntax with in-range components."),
    "C08": C("runtime monitor: black-box observation of the real command (stdout counters, report cards, written file) judged by a reference stylesheet reader + WCAG + the Python API; in-process runs with a recording ColorPair plus real subprocess runs",
             "Generated stylesheets (variables: chained/fallback/shared, !important, repeats, nesting to depth 4, colours in :root/html) x mode x premium x default-bg; P1-P6 checked per rule. Directory runs with cross-file custom-property references, translucent text, comments inside values, the same pair in other notations. Known findings (shared custom property across backgrounds, undefined var with literal fallback, error node in re-serialised rule) are mechanism-keyed.",
             T_ORACLE + "tinycss2's tokenizer is trusted as the reading of the sheet; selectors generated unique."),
    "C09": C("runtime monitor: SHA-256 of inputs + directory listing + sys.addaudithook write-open log (in-process) + strace -f file-syscall log (subprocess) + canonical structural diff of output vs input",
             "Every run is watched for writes: only sibling _cm.css files and the report may be created; output must equal input in canonical token structure except adjusted colour values. Single-file targets named *_cm.css / multi-dot / spaced / hidden / non-ASCII, symlink and absolute-path arguments, runs from a parent directory. One known finding (error node in a re-serialised rule loses the file).",
             T_ORACLE + "Canonical form built on tinycss2's tokenizer."),
    "C10": C("runtime monitor: exhaustive forward/round-trip over 2^24 colours (thorough) against Ottosson's published OKLab definition, grid+random inverse, invalid-input fuzz of the safe variants, contracts on the safe variants during optimiser runs",
             "Forward conversion, ranges and exact round trip on all 16,777,216 colours (thorough; 2^20 in quick); inverse on a dense grid, random and gamut-boundary triples within one unit of the oracle's clip-and-round; safe variants on finite-out-of-range and non-finite triples, and on valid colours right after the invalid triples they could be confused with.",
             T_ORACLE + "'L=0 black' demanded on the achromatic axis only (definition + clipping gives (20,0,0) for (0,0.3,0deg))."),
    "C11": C("runtime monitor: exhaustive Lab over 2^24 colours (thorough) against a first-principles oracle; CIEDE2000 against the 34 published pairs (Lab fed through attribute replacement) and a set-valued independent implementation; dE contract live during optimiser runs",
             "Lab on every colour, dE on unit-step neighbours of every 4th colour (12.6M, thorough), random / near-neutral / hue-wrap / blue-region pairs; symmetric, finite, zero iff identical; reused list arguments overwritten in place.",
             T_ORACLE + "At the hue-difference discontinuity both branches are admissible when a 0.03 Lab disagreement could flip the branch (measured necessary)."),
    "C12": C("runtime monitor: differential of make_readable_bulk against fresh single-pair calls + WCAG label oracle + permutation / removal metamorphic relations",
             "Lists of 0-12 mixed 2-/3-element entries with duplicates and invalid entries at random positions under all 6 (mode, very_readable): order, per-entry equality with the single-pair API, status label of the read-back colour, invalid entries unchanged, permutation and removal invariance; twins at the other text size, hash-equal alias entries, the same entry object twice, one-shot iterables with and without save_report.",
             T_ORACLE + "The single-pair API is the reference for the colour."),
    "C13": C("runtime monitor: exact-rational source-over blend oracle on ColorPair composites, labels and fixes judged on the composite",
             "(fg, alpha, bg) triples in rgba()/hsla()/RGBA tuple/list spellings incl. alpha at and next to 0 and 1 and translucent backgrounds; composite within 1.5 of the exact blend; is_readable and make_readable judged on that composite; grammar-spelled (percentage / fractional hsl) foregrounds where the 1.5 bound is tight (measured 1.498); alpha-carrying rgb() and informal forms; hash-equal alias backgrounds.",
             T_ORACLE),
    "C14": C("runtime monitor: never-raises invariant around Color/ColorPair/bulk under grammar-based near-miss fuzzing",
             "150k (quick) / 3M (thorough) hostile strings and sequences; any escaping exception, a valid object without a proper rgb, an invalid one without a message, or an invalid pair that is not (None, False)/'Not Readable' is a violation; bulk isolation of the invalid entry, also next to an equal-comparing retyped twin; huge integers; '#' followed by signs/blanks/prefixes.",
             "Structural oracle only. Nested sequences and non-sequence types are outside the statement."),
    "C15": C("runtime monitor: equality of one probe across fresh interpreters (hash seeds), generated call histories, bulk positions, repeated calls and 8 concurrent threads with sys.monitoring LINE-callback yield injection; object/module fingerprints",
             "Probe results must be identical in all observations; histories are built around the probe (shared text / background / pair, other spellings, bulk, in-process CLI, show/save_report). Hash-equal and str()-equal aliases, early-ending CLI runs with --default-bg, translucent backgrounds; fresh interpreters whose first calls come from 16 threads at once. Thread schedules are sampled (distinct call/return orders counted).",
             "The library elsewhere/else-when is the reference (differential). Module-state drift is evidence, not a verdict."),
    "C16": C("runtime monitor: cross-configuration relations on recorded results (mode 1 => mode 2 identical; very_readable success => ordinary success)",
             "All 12 configurations per pair on pairs needing several default-mode steps, near-threshold and mid-tone pairs; premises (mode-1 successes, very_readable successes) are counted so the relations are not vacuous; configuration order shuffled per pair; saturating pairs (fix near black/white); one ColorPair reused with its large attribute switched.",
             "Differential: the library under the other setting is the reference."),
    "C17": C("runtime monitor: I/O window (sys.stdout/stderr replacement, fd 1/2 redirection, sys.addaudithook write-open / mutation log, cwd listing) around API calls",
             "Default path must be silent and eventless for every spelling and outcome; with show/save_report the result must equal the plain result, never raise, and only write the documented report in the cwd - which changes between calls; leniently accepted and invalid inputs; stdout that is None or write/flush-only; zip() input to bulk with a report.",
             "Audit events cover Python-level file creation; bytecode caching disabled in the harness."),
    "C18": C("runtime monitor over enumerated faults: every fault kind x placement injected into generated trees; directory-run bytes vs single-file-run bytes, rerun idempotence, stderr reporting; all real subprocesses",
             "Fault enumeration: {non-UTF-8, directory named *.css, dangling symlink, unserialisable sheet, empty file, orphan _cm.css, stale output, none} x {first, middle, last} x {root, sub-directory} in trees with cross-file custom-property references, shared pairs in per-file notations, multi-dot and spaced names; plus blocked-output (fails after analysis). Every created file must be <name>_cm.css beside an input; the second run must leave the tree byte-identical.",
             "The command on one file alone in a pristine copy is the reference. Permission faults not generated (root ignores mode bits).", category="fault_enumeration"),
    "C19": C("runtime monitor: DOM-skeleton equality (html.parser) between reports for hostile strings and a benign marker, per user-controlled slot, plus end-to-end CLI / bulk / single runs",
             "Hostile strings over markup metacharacters in every slot of generate_report / to_html / to_html_bulk, and end to end through attribute-selector strings, file names and colour values: same skeleton, text/style shows the string verbatim; --default-bg as a route; Unicode compatibility forms of the metacharacters.",
             "html.parser tokenisation stands for a browser's on escaped documents; level badges are not user text."),
}

PENDING_REASON = "check under construction in this round; not yet claimed"
ALL = ["C%02d" % i for i in range(1, 20)]


def main():
    checks = []
    for pid in ALL:
        if pid not in CHECKS:
            continue
        c = CHECKS[pid]
        checks.append({
            "property_id": pid,
            "quick_cmd": f"./check {pid} quick",
            "thorough_cmd": f"./check {pid} thorough",
            "evidence_file": f"evidence/{pid}.json",
            "replay_cmd_template": f"./check {pid} --replay {{path}}",
            "engine": "cmv",
            "level_claimed": {"category": c["category"], "text": c["text"], "design_ref": f"DESIGN.md §3 {pid}"},
            "level_note": c["note"],
            "technique": c["technique"],
        })
    man = {
        "version": 1,
        "setup_cmd": "./setup.sh",
        "hooks": {
            "guard": "CM_COLORS_VERIF",
            "enable": "no source hooks: monitors attach by attribute replacement inside the harness process (./check exports CM_COLORS_VERIF=1 for symmetry; the library never reads it)",
            "baseline_off_cmd": "cd /repo && /venv/bin/python -m pytest -ra -q -p no:cacheprovider --timeout=900 --continue-on-collection-errors",
            "source_commits": [],
            "add_only": True,
        },
        "engines": [{
            "name": "cmv",
            "path": "cmv/",
            "serves_properties": [c["property_id"] for c in checks],
            "kind_free_text": "runtime monitors: contracts on real functions, audit hooks, reference-oracle observers over generated workloads; 16 worker subprocesses; three-valued verdicts",
        }],
        "checks": checks,
        "notes": "Exit 0 held / 1 VIOLATION / 2 INCONCLUSIVE. Known findings: KNOWN_FINDINGS.txt (mechanism-keyed).",
        "not_applicable": [{"property_id": p, "reason": PENDING_REASON} for p in ALL if p not in CHECKS],
    }
    with open(os.path.join(HERE, "MANIFEST.json"), "w") as f:
        json.dump(man, f, indent=1)
        f.write("\n")
    try:
        import jsonschema
        jsonschema.validate(man, json.load(open("/root/.vp/MANIFEST.schema.json")))
        print("MANIFEST.json valid;", len(checks), "checks")
    except ImportError:
        print("MANIFEST.json written (jsonschema not importable here)")


if __name__ == "__main__":
    main()
