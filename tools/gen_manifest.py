#!/usr/bin/env python3
"""Regenerates /verif/MANIFEST.json from the table below (keeps it valid)."""
import json
import os

HERE = os.path.dirname(os.path.dirname(os.path.abspath(__file__)))

CHECKS = {
    "C01": dict(
        technique="runtime monitor: postcondition contract (icontract) on check_and_fix_contrast + API-boundary oracle (CSS read-back, WCAG ratio) over stratified pair workload",
        category="exploration",
        text="Every make_readable / bulk / check_and_fix_contrast execution produced by a stratified, threshold-hugging workload is judged by an independent WCAG+CSS oracle; held on N observed executions, not a proof over 2^48 pairs.",
        note="Trusts cmv/oracles/wcag.py and csscolor.py (self-tested at start of every run; failure => inconclusive). Infinite/2^48 input space is sampled per class; counts per class in evidence.",
        ref="C01"),
}

PENDING_REASON = "check under construction in this round; not yet claimed"
ALL = ["C%02d" % i for i in range(1, 20)]


def main():
    checks = []
    for pid in ALL:
        if pid not in CHECKS:
            continue
        c = CHECKS[pid]
        checks.append({
            "property_id": pid,
            "quick_cmd": f"./check {pid} quick",
            "thorough_cmd": f"./check {pid} thorough",
            "evidence_file": f"evidence/{pid}.json",
            "replay_cmd_template": f"./check {pid} --replay {{path}}",
            "engine": "cmv",
            "level_claimed": {"category": c["category"], "text": c["text"], "design_ref": f"DESIGN.md §3 {c['ref']}"},
            "level_note": c["note"],
            "technique": c["technique"],
        })
    man = {
        "version": 1,
        "setup_cmd": "./setup.sh",
        "hooks": {
            "guard": "CM_COLORS_VERIF",
            "enable": "no source hooks: monitors attach by attribute replacement inside the harness process (./check exports CM_COLORS_VERIF=1 for symmetry; the library never reads it)",
            "baseline_off_cmd": "cd /repo && /venv/bin/python -m pytest -ra -q -p no:cacheprovider --timeout=900 --continue-on-collection-errors",
            "source_commits": [],
            "add_only": True,
        },
        "engines": [{
            "name": "cmv",
            "path": "cmv/",
            "serves_properties": [c["property_id"] for c in checks],
            "kind_free_text": "runtime monitors: contracts on real functions, audit hooks, reference-oracle observers over generated workloads; 16 worker subprocesses; three-valued verdicts",
        }],
        "checks": checks,
        "notes": "Exit 0 held / 1 VIOLATION / 2 INCONCLUSIVE. Known findings: KNOWN_FINDINGS.txt (mechanism-keyed).",
        "not_applicable": [{"property_id": p, "reason": PENDING_REASON} for p in ALL if p not in CHECKS],
    }
    with open(os.path.join(HERE, "MANIFEST.json"), "w") as f:
        json.dump(man, f, indent=1)
        f.write("\n")
    try:
        import jsonschema
        jsonschema.validate(man, json.load(open("/root/.vp/MANIFEST.schema.json")))
        print("MANIFEST.json valid;", len(checks), "checks")
    except ImportError:
        print("MANIFEST.json written (jsonschema not importable here)")


if __name__ == "__main__":
    main()
