#!/usr/bin/env python3
"""Self-validation (not a registered check): property-preserving variants of the
library. Every check must stay silent (exit 0) on each of them; an alarm here is
a false alarm of the harness.   tools/neutral.py [name-substring ...]
Results -> tools/neutral_results.json"""
import json
import os
import subprocess
import sys
import tempfile

HERE = os.path.dirname(os.path.dirname(os.path.abspath(__file__)))
OPT = "src/cm_colors/core/optimisation.py"
CONV = "src/cm_colors/core/conversions.py"
CON = "src/cm_colors/core/contrast.py"
COL = "src/cm_colors/core/colors.py"
MAIN = "src/cm_colors/cli/main.py"
REP = "src/cm_colors/cli/html_report.py"
VIS = "src/cm_colors/core/visualiser.py"
ALL = ["C%02d" % i for i in range(1, 20)]

# (name, checks to run, [(file, old, new), ...])
N = [
    ("upper-case-hex-output", ["C01", "C02", "C06", "C08", "C09", "C12", "C13", "C15", "C17", "C18"],
     [(CONV, '    return "#{:02x}{:02x}{:02x}".format(r, g, b)', '    return "#{:02X}{:02X}{:02X}".format(r, g, b)')]),
    ("rgb-string-without-spaces", ["C01", "C02", "C04", "C06", "C08", "C12", "C15", "C16", "C17"],
     [(CONV, '    return f"rgb({rgb[0]}, {rgb[1]}, {rgb[2]})"', '    return f"rgb({rgb[0]},{rgb[1]},{rgb[2]})"')]),
    ("hsl-six-decimals", ["C01", "C02", "C04", "C06", "C12", "C16", "C17"],
     [(CONV, '    return f"hsl({h}, {s*100}%, {l*100}%)"', '    return f"hsl({h:.6f}, {s*100:.6f}%, {l*100:.6f}%)"')]),
    ("exact-cie-constants", ["C03", "C04", "C11"],
     [(CONV, "        if t > 0.008856:\n            return pow(t, 1 / 3)\n        else:\n            return (7.787 * t) + (16 / 116)",
       "        if t > 216 / 24389:\n            return pow(t, 1 / 3)\n        else:\n            return ((24389 / 27) * t + 16) / 116")]),
    ("memo-keyed-on-all-arguments", ["C01", "C02", "C04", "C12", "C15", "C16"],
     [(OPT, "def check_and_fix_contrast(\n    text,\n    bg,\n    large: bool = False,\n    mode: int = 1,\n    premium: bool = False,\n):",
       "_memo = {}\n\n\ndef check_and_fix_contrast(text, bg, large=False, mode=1, premium=False):\n    key = (repr(text), repr(bg), bool(large), mode, bool(premium))\n"
       "    if key not in _memo:\n        _memo[key] = _check_and_fix_contrast(text, bg, large, mode, premium)\n    return _memo[key]\n\n\n"
       "def _check_and_fix_contrast(\n    text,\n    bg,\n    large: bool = False,\n    mode: int = 1,\n    premium: bool = False,\n):")]),
    ("renamed-private-strategies", ["C01", "C02", "C03", "C04", "C16"],
     [(OPT, "_strategy_strict", "_run_strict"), (OPT, "_strategy_recursive", "_run_stepwise"), (OPT, "_strategy_relaxed", "_run_relaxed")]),
    ("cli-writer-trailing-newline", ["C08", "C09", "C18"],
     [(MAIN, "                f.write(tinycss2.serialize(rules))", "                f.write(tinycss2.serialize(rules).rstrip(\"\\n\") + \"\\n\")")]),
    ("report-extra-meta-tag", ["C08", "C17", "C19"],
     [(REP, '    <meta charset="UTF-8">', '    <meta charset="UTF-8">\n    <meta name="generator" content="cm-colors">'),
      (VIS, '    <meta charset="UTF-8">', '    <meta charset="UTF-8">\n    <meta name="generator" content="cm-colors">')]),
    ("luminance-table-lookup", ["C01", "C02", "C05", "C16"],
     [(CON, "def calculate_relative_luminance(rgb: Tuple[int, int, int]) -> float:\n    \"\"\"Calculate relative luminance according to WCAG\"\"\"\n    r, g, b = [x / 255.0 for x in rgb]\n    r_linear = srgb_to_linear(r)\n    g_linear = srgb_to_linear(g)\n    b_linear = srgb_to_linear(b)\n",
       "_LIN = [srgb_to_linear(i / 255.0) for i in range(256)]\n\n\ndef calculate_relative_luminance(rgb: Tuple[int, int, int]) -> float:\n    \"\"\"Calculate relative luminance according to WCAG\"\"\"\n    r, g, b = rgb\n    if all(isinstance(x, int) and 0 <= x <= 255 for x in rgb):\n        r_linear, g_linear, b_linear = _LIN[r], _LIN[g], _LIN[b]\n    else:\n        r_linear, g_linear, b_linear = (srgb_to_linear(x / 255.0) for x in rgb)\n")]),
    ("sorted-file-discovery", ["C08", "C09", "C18"],
     [(MAIN, "        for p in path.rglob(\"*.css\"):", "        for p in sorted(path.rglob(\"*.css\")):")]),
    ("reworded-error-messages", ["C12", "C14", "C17"],
     [(COL, "            self._error = str(e)\n            self._parsed = True", "            self._error = f\"could not read colour {self.original!r}: {e}\"\n            self._parsed = True")]),
    ("renamed-search-routines", ALL,
     [(OPT, "generate_accessible_color", "_multi_phase_search"), (OPT, "binary_search_lightness", "_lightness_search"), (OPT, "gradient_descent_oklch", "_descent_search")]),
    ("renamed-format-helpers", ALL,
     [("src/cm_colors/core/color_parser.py", "format_color", "_render_as"), ("src/cm_colors/core/color_parser.py", "detect_color_format", "_detect_format"),
      (COL, "format_color", "_render_as"), (COL, "detect_color_format", "_detect_format")]),
    ("renamed-report-helpers", ["C08", "C17", "C19"],
     [(VIS, "def to_html(", "def _card_html("), (VIS, "cards_html += to_html(", "cards_html += _card_html(")]),
    ("atomic-output-write", ["C08", "C09", "C18"],
     [(MAIN, "            with open(output_path, \"w\", encoding=\"utf-8\") as f:\n                f.write(tinycss2.serialize(rules))",
       "            text_out = tinycss2.serialize(rules)\n            tmp_path = output_path.with_name(output_path.name + \".tmp\")\n"
       "            try:\n                with open(tmp_path, \"w\", encoding=\"utf-8\") as f:\n                    f.write(text_out)\n"
       "                import os as _os\n                _os.replace(tmp_path, output_path)\n"
       "            finally:\n                if tmp_path.exists():\n                    tmp_path.unlink()")]),
    ("lab-memo-keyed-on-tuple", ["C03", "C04", "C11"],
     [(CONV, "def rgb_to_lab(rgb: Tuple[int, int, int]) -> Tuple[float, float, float]:\n    \"\"\"Convert RGB directly to LAB\"\"\"\n    xyz = rgb_to_xyz(rgb)\n    return xyz_to_lab(xyz)",
       "_LAB_MEMO = {}\n\n\ndef rgb_to_lab(rgb: Tuple[int, int, int]) -> Tuple[float, float, float]:\n    \"\"\"Convert RGB directly to LAB\"\"\"\n"
       "    key = (type(rgb[0]), type(rgb[1]), type(rgb[2]), tuple(rgb))\n    if key not in _LAB_MEMO:\n        if len(_LAB_MEMO) > 100000:\n            _LAB_MEMO.clear()\n"
       "        _LAB_MEMO[key] = xyz_to_lab(rgb_to_xyz(rgb))\n    return _LAB_MEMO[key]")]),
    ("atomic-report-write", ["C17", "C19", "C12"],
     [(VIS, "    with open(output_path, \"w\", encoding=\"utf-8\") as f:\n        f.write(html_content)",
       "    tmp_path = str(output_path) + \".part\"\n    with open(tmp_path, \"w\", encoding=\"utf-8\") as f:\n        f.write(html_content)\n    os.replace(tmp_path, output_path)")]),
    ("cli-extra-progress-line", ["C04", "C08", "C09", "C18", "C19"],
     [(MAIN, "            with open(output_path, \"w\", encoding=\"utf-8\") as f:\n                f.write(tinycss2.serialize(rules))",
       "            with open(output_path, \"w\", encoding=\"utf-8\") as f:\n                f.write(tinycss2.serialize(rules))\n            click.echo(f\"  wrote {output_path}\")")]),
    ("debug-logging-in-optimiser", ["C01", "C15", "C17"],
     [(OPT, "def check_and_fix_contrast(\n    text,\n    bg,\n    large: bool = False,\n    mode: int = 1,\n    premium: bool = False,\n):",
       "import logging\n\n_log = logging.getLogger(__name__)\n\n\ndef check_and_fix_contrast(\n    text,\n    bg,\n    large: bool = False,\n    mode: int = 1,\n    premium: bool = False,\n):\n"
       "    _log.debug(\"check_and_fix_contrast(%r, %r, large=%r, mode=%r, premium=%r)\", text, bg, large, mode, premium)")]),
    ("lock-around-bulk", ["C12", "C15"],
     [("src/cm_colors/core/cm_colors.py", "def make_readable_bulk(", "import threading as _threading\n\n_BULK_LOCK = _threading.RLock()\n\n\ndef make_readable_bulk(")]),
    ("hue-via-math-degrees", ["C03", "C04", "C10", "C11"],
     [(CONV, "    hue = math.atan2(b, a) * 180 / math.pi\n    return hue + 360 if hue < 0 else hue", "    hue = math.degrees(math.atan2(b, a))\n    return hue + 360.0 if hue < 0 else hue")]),
]


def sh(cmd):
    return subprocess.run(cmd, shell=True, stdout=subprocess.PIPE, stderr=subprocess.STDOUT, text=True)


def main():
    want = sys.argv[1:]
    results = []
    for name, checks, edits in N:
        if want and not any(w in name for w in want):
            continue
        wt = tempfile.mkdtemp(prefix="neutral-", dir="/tmp")
        os.rmdir(wt)
        sh(f"git -C /repo worktree add -q --detach {wt} HEAD")
        try:
            ok = True
            for f, old, new in edits:
                p = os.path.join(wt, f)
                s = open(p).read()
                if old not in s:
                    ok = False
                    break
                open(p, "w").write(s.replace(old, new))
            if not ok:
                print(name, "PATTERN-NOT-FOUND")
                results.append({"variant": name, "status": "PATTERN-NOT-FOUND"})
                continue
            t = sh(f"cd {wt} && PYTHONPATH={wt}/src /venv/bin/python -m pytest -q -p no:cacheprovider 2>&1 | tail -1").stdout.strip()
            row = {"variant": name, "repo_tests": t[:70], "checks": {}}
            for c in checks:
                o = sh(f"cd {HERE} && CMV_REPO={wt} ./check {c} quick")
                first = next((l for l in o.stdout.splitlines() if l.startswith(("VIOLATION", "INCONCLUSIVE"))), "")
                row["checks"][c] = {"rc": o.returncode, "first": first[:300]}
            row["alarms"] = [c for c, v in row["checks"].items() if v["rc"] != 0]
            results.append(row)
            print(f"{name:34s} tests: {t[:40]:40s} alarms: {row['alarms']}", flush=True)
            for c in row["alarms"]:
                print("    ", c, row["checks"][c]["first"][:260])
        finally:
            sh(f"git -C /repo worktree remove --force {wt}")
            sh(f"rm -rf {wt}")
    out = os.path.join(HERE, "tools", "neutral_results.json")
    prev = []
    if want and os.path.exists(out):
        prev = [r for r in json.load(open(out)) if not any(w in r["variant"] for w in want)]
    json.dump(prev + results, open(out, "w"), indent=1)


if __name__ == "__main__":
    main()
