#!/bin/bash
# tools/seedcheck.sh <ID> <patch.diff> <demo.py> [checks...]
# Confirms a seeded change in a scratch worktree (never in /repo): applies, 125 tests pass,
# demo fails with / passes without, then runs the owning check (and any extra checks) against it.
set -u
id="$1"; patch="$2"; demo="$3"; shift 3
extra="$*"
wt="/tmp/sv/$id-$$"
mkdir -p /tmp/sv
git -C /repo worktree add -q --detach "$wt" HEAD || exit 2
trap 'git -C /repo worktree remove --force "$wt" >/dev/null 2>&1; rm -rf "$wt"' EXIT
if ! git -C "$wt" apply "$patch" 2>/dev/null; then
  # the patch was written against an earlier /repo HEAD (a later fix: commit touched its context): 3-way apply, then
  # refresh the patch so that it applies to the current HEAD
  if git -C "$wt" apply -3 "$patch" >/dev/null 2>&1 && ! git -C "$wt" diff --name-only --diff-filter=U | grep -q .; then
    git -C "$wt" reset -q; git -C "$wt" diff > "$patch.rebased"; echo "note: patch 3-way applied; refreshed copy at $patch.rebased"
  else echo "RESULT apply=FAILED"; exit 2; fi
fi
tests=$(cd "$wt" && PYTHONPATH="$wt/src" /venv/bin/python -m pytest -q -p no:cacheprovider 2>&1 | tail -1)
echo "tests(with change): $tests"
clean=$(cd /tmp && PYTHONPATH=/repo/src /venv/bin/python "$demo" 2>&1 | tail -2 | tr '\n' ' '); crc=$?
clean_rc=$(cd /tmp && PYTHONPATH=/repo/src /venv/bin/python "$demo" >/dev/null 2>&1; echo $?)
with_rc=$(cd /tmp && PYTHONPATH="$wt/src" /venv/bin/python "$demo" >/dev/null 2>&1; echo $?)
withmsg=$(cd /tmp && PYTHONPATH="$wt/src" /venv/bin/python "$demo" 2>&1 | tail -2 | tr '\n' ' ' | cut -c1-300)
echo "demo clean rc=$clean_rc ($clean) ; with change rc=$with_rc ($withmsg)"
cd /verif
for c in $id $extra; do
  out=$(CMV_REPO="$wt" ./check "$c" "${SEED_TIER:-quick}" 2>&1); rc=$?
  echo "check $c ${SEED_TIER:-quick} on changed tree: rc=$rc :: $(echo "$out" | grep -E '^VIOLATION' | head -1 | cut -c1-330)"
  [ $rc -ne 1 ] && echo "$out" | grep -v '^KNOWN' | tail -2 | cut -c1-300
done
